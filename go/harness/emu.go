package main

import (
	"context"
	"errors"
	"fmt"
	"io"
	"strings"
	"sync"
	"time"

	"go.einride.tech/xsens"
	"go.einride.tech/xsens/xsensemulator"
)

// emuPort feeds the emulator's receive loop one frame at a time and records what it writes.
// It signals "idle" whenever the loop comes back for more input with nothing pending: everything fed so far
// has then been processed.
type emuPort struct {
	in      chan []byte
	pending []byte
	idle    chan struct{}
	mu      sync.Mutex
	out     [][]byte
}

func newEmuPort() *emuPort {
	return &emuPort{in: make(chan []byte), idle: make(chan struct{}, 1)}
}

func (p *emuPort) Read(b []byte) (int, error) {
	if len(p.pending) == 0 {
		select {
		case p.idle <- struct{}{}:
		default:
		}
		f, ok := <-p.in
		if !ok {
			return 0, io.EOF
		}
		p.pending = f
	}
	n := copy(b, p.pending)
	p.pending = p.pending[n:]
	return n, nil
}

func (p *emuPort) Write(b []byte) (int, error) {
	p.mu.Lock()
	p.out = append(p.out, append([]byte(nil), b...))
	p.mu.Unlock()
	return len(b), nil
}
func (p *emuPort) Close() error { return nil }
func (p *emuPort) written() [][]byte {
	p.mu.Lock()
	defer p.mu.Unlock()
	return append([][]byte(nil), p.out...)
}

type eev struct {
	kind  string // recv sendmode setconf transmit marshal lastid
	frame []byte
	cfg   xsens.OutputConfiguration
	dtype xsens.DataType
}

func (e eev) term() string {
	switch e.kind {
	case "recv":
		return "(ERecv " + nlist(e.frame) + ")"
	case "sendmode":
		return "ESendMode"
	case "setconf":
		return "(ESetConf " + settingsTerm(e.cfg) + ")"
	case "transmit":
		return "(ETransmit " + nlist(e.frame) + ")"
	case "marshal":
		return fmt.Sprintf("(EMarshal %d%%Z)", int(e.dtype))
	case "lastid":
		return "ELastId"
	}
	panic("bad event")
}

// runEmulator executes a history on a real emulator, deterministically.
// emuFrag: when > 0 every incoming frame longer than that is delivered to the receive loop in two reads, split there
var emuFrag int

func runEmulator(events []eev) []string {
	port := newEmuPort()
	e := xsensemulator.NewEmulator(port)
	done := make(chan error, 1)
	go func() {
		var err error
		if p, msg := protect(func() { err = e.Receive(context.Background()) }); p {
			err = fmt.Errorf("the receive loop panicked: %s", msg) // ends the loop, not the harness
		}
		done <- err
	}()
	alive := true
	wait := func() {
		if !alive {
			return
		}
		select {
		case <-port.idle:
		case <-done:
			alive = false
		case <-time.After(10 * time.Second):
			alive = false
		}
	}
	wait()
	var obs []string
	// direct calls run under a guard: after one that did not return (a lock never released) the emulator is not called again
	stuck := false
	call := func(f func()) bool {
		if stuck {
			return false
		}
		if !guarded(f) {
			stuck = true
			return false
		}
		return true
	}
	for _, ev := range events {
		switch ev.kind {
		case "recv":
			w0 := len(port.written())
			if alive {
				parts := [][]byte{append([]byte(nil), ev.frame...)}
				if emuFrag > 0 && len(ev.frame) > emuFrag {
					parts = [][]byte{append([]byte(nil), ev.frame[:emuFrag]...), append([]byte(nil), ev.frame[emuFrag:]...)}
				}
				for _, part := range parts {
					if !alive {
						break
					}
					select {
					case port.in <- part:
						wait()
					case <-done:
						alive = false
					}
				}
			}
			obs = append(obs, "(OWrote "+nlists(port.written()[w0:])+")")
		case "sendmode":
			call(func() { e.SetSendMode() })
			obs = append(obs, "ONone")
		case "setconf":
			call(func() { e.SetOutputConguration(append(xsens.OutputConfiguration(nil), ev.cfg...)) })
			obs = append(obs, "ONone")
		case "transmit":
			w0 := len(port.written())
			var err error
			var pn bool
			if !call(func() { pn, _ = protect(func() { err = e.Transmit(xsens.Message(exact(ev.frame))) }) }) || pn {
				obs = append(obs, "(OTx 9%Z [])")
				continue
			}
			r := 0
			switch {
			case err == nil:
			case errors.Is(err, xsensemulator.ErrNotInMeasurementMode):
				r = 1
			default:
				r = 2
			}
			obs = append(obs, fmt.Sprintf("(OTx %d%%Z %s)", r, nlists(port.written()[w0:])))
		case "marshal":
			v := valueOfType(xsens.DataIdentifier{DataType: ev.dtype})
			r := "(OMar None)"
			if v != nil {
				var p []byte
				var err error
				if !call(func() { p, err = e.MarshalMessage(v, ev.dtype) }) {
					r = "(OMar (Some 99999%Z))" // the call did not return
				} else if err == nil {
					r = fmt.Sprintf("(OMar (Some %d%%Z))", int(xsens.MTData2Packet(p).Identifier().Uint16()))
				}
			}
			obs = append(obs, r)
		case "lastid":
			id := 9999 // the call did not return
			call(func() { id = int(e.LastMessageIdentifier()) })
			obs = append(obs, fmt.Sprintf("(OId %d%%Z)", id))
		}
	}
	close(port.in)
	return obs
}

func (c *ctx) emitEmu(kind string, events []eev) {
	obs := runEmulator(events)
	var et []string
	for _, e := range events {
		et = append(et, e.term())
	}
	c.emit(kind, tup("["+strings.Join(et, ";")+"]", "["+strings.Join(obs, ";")+"]"))
}

func (c *ctx) outConfig(n int) xsens.OutputConfiguration {
	perm := c.rng.Perm(len(supportedTypes))
	if n > len(perm) {
		n = len(perm)
	}
	cfg := make(xsens.OutputConfiguration, n)
	for i := 0; i < n; i++ {
		cfg[i] = xsens.OutputConfigurationSetting{
			DataIdentifier: xsens.DataIdentifier{DataType: supportedTypes[perm[i]], CoordinateSystem: xsens.CoordinateSystem(4 * c.rng.Intn(3)),
				Precision: xsens.Precision(c.rng.Intn(4))},
			OutputFrequency: xsens.OutputFrequency([]int{0, 100, 400, 0xffff}[c.rng.Intn(4)]),
		}
	}
	return cfg
}

// emuMarshalAfter: an emulator that has received these configurations, one after the other, as SetOutputConfiguration
// commands through its receive loop; then MarshalMessage for the value
func emuMarshalAfter(cfgs []xsens.OutputConfiguration, md xsens.MeasurementData, t xsens.DataType) ([]byte, error) {
	port := newEmuPort()
	e := xsensemulator.NewEmulator(port)
	done := make(chan error, 1)
	go func() {
		var err error
		if p, msg := protect(func() { err = e.Receive(context.Background()) }); p {
			err = fmt.Errorf("the receive loop panicked: %s", msg) // ends the loop, not the harness
		}
		done <- err
	}()
	alive := true
	wait := func() {
		select {
		case <-port.idle:
		case <-done:
			alive = false
		case <-time.After(5 * time.Second):
			alive = false
		}
	}
	wait()
	for _, cfg := range cfgs {
		payload, _ := cfg.Marshal()
		if !alive {
			break
		}
		select {
		case port.in <- []byte(xsens.NewMessage(xsens.MessageIdentifierSetOutputConfiguration, payload)):
			wait()
		case <-done:
			alive = false
		}
		// an encode under every configuration on the way (whatever the emulator derives from a configuration must not
		// outlive it)
		protect(func() { _, _ = e.MarshalMessage(md, t) })
	}
	p, err := e.MarshalMessage(md, t)
	close(port.in)
	return p, err
}

// emuDelivers: frames of every boundary size (any identifier, and as a configuration command) handed to an emulator;
// the mode commands behind each show whether its scanner delivered it and lives on
func (c *ctx) emuDelivers() {
	for _, n := range []int{0, 1, 254, 255, 256, 2044, 2046, 2047, 2048} {
		for k := 0; k < 3; k++ {
			mid := xsens.MessageIdentifier(c.rng.Intn(256))
			if k == 0 {
				mid = xsens.MessageIdentifierSetOutputConfiguration
			}
			c.emitEmu("emu", []eev{
				{kind: "recv", frame: xsens.NewMessage(xsens.MessageIdentifierGotoMeasurement, nil)},
				{kind: "recv", frame: xsens.NewMessage(mid, c.payload(n))},
				{kind: "lastid"},
				{kind: "recv", frame: xsens.NewMessage(xsens.MessageIdentifierGotoConfig, nil)},
				{kind: "lastid"},
				{kind: "transmit", frame: xsens.NewMessage(xsens.MessageIdentifierMTData2, []byte{0x10, 0x20, 0x02, 0x00, 0x07})},
				{kind: "recv", frame: xsens.NewMessage(xsens.MessageIdentifierGotoMeasurement, nil)},
				{kind: "lastid"},
			})
			c.count("frames-through-emulator")
		}
	}
}

// the seven event kinds of the property, instantiated
func (c *ctx) emuEvent(k int) eev {
	valid := []byte(xsens.NewMessage(xsens.MessageIdentifierMTData2, []byte{0x10, 0x20, 0x02, 0x00, byte(c.rng.Intn(256))}))
	switch k {
	case 0:
		return eev{kind: "recv", frame: xsens.NewMessage(xsens.MessageIdentifierGotoConfig, nil)}
	case 1:
		// the same configuration is sent again and again (a re-sent configuration must still leave measurement
		// mode); sometimes an empty or a fresh one
		var p []byte
		switch c.rng.Intn(6) {
		case 0:
			p = nil
		case 1:
			oc := c.outConfig(1 + c.rng.Intn(3))
			p, _ = oc.Marshal()
		case 2: // around the documented maximum of 32 settings, and well beyond it
			n := []int{31, 32, 33, 64, 100}[c.rng.Intn(5)]
			oc := make(xsens.OutputConfiguration, n)
			for j := range oc {
				oc[j] = c.inRangeSetting()
			}
			p, _ = oc.Marshal()
		default:
			p = []byte{0x20, 0x10, 0x00, 0x64, 0x40, 0x21, 0x01, 0x90}
		}
		return eev{kind: "recv", frame: xsens.NewMessage(xsens.MessageIdentifierSetOutputConfiguration, p)}
	case 2:
		return eev{kind: "recv", frame: xsens.NewMessage(xsens.MessageIdentifierGotoMeasurement, nil)}
	case 3:
		return eev{kind: "recv", frame: xsens.NewMessage(xsens.MessageIdentifierReqDID, nil)}
	case 4:
		return eev{kind: "sendmode"}
	case 5:
		return eev{kind: "transmit", frame: valid}
	default:
		// malformed frames from the C02 generators: damaged checksum, wrong size, too short, bad preamble
		switch c.rng.Intn(6) {
		case 0:
			g := append([]byte(nil), valid...)
			g[len(g)-1]++
			return eev{kind: "transmit", frame: g}
		case 1:
			return eev{kind: "transmit", frame: valid[:c.rng.Intn(5)]} // cut inside the header
		case 2:
			return eev{kind: "transmit", frame: []byte{0xfa, 0xff, 0x36, 0x05, 0xc6}} // LEN disagrees with size (checksum ok)
		case 3:
			return eev{kind: "transmit", frame: []byte{0xfa, 0xff, 0x00, 0xff, 0x02}}
		case 4:
			return eev{kind: "transmit", frame: c.mutate(valid)}
		default:
			g := append([]byte(nil), valid...)
			g[0] = 0xfb
			return eev{kind: "transmit", frame: g}
		}
	}
}

func init() {
	props["C18"] = func(c *ctx) {
		// commands of every boundary size in measurement mode, then a mode command and a transmit
		c.emuDelivers()
		// bounded-exhaustive histories over the seven event kinds, each followed by a mode probe
		L := c.pick(4, 5)
		var rec func(cur []int)
		rec = func(cur []int) {
			if len(cur) > 0 {
				var evs []eev
				for _, k := range cur {
					evs = append(evs, c.emuEvent(k))
				}
				evs = append(evs, eev{kind: "lastid"}, c.emuEvent(5), c.emuEvent(6))
				c.emitEmu("emu", evs)
			}
			if len(cur) == L {
				return
			}
			for k := 0; k < 7; k++ {
				rec(append(append([]int(nil), cur...), k))
			}
		}
		rec(nil)
		c.count("bounded-exhaustive-histories")
		// the same commands delivered to the receive loop in two reads, cut after 1..4 bytes (the mode must still follow them)
		for frag := 1; frag <= 4; frag++ {
			emuFrag = frag
			for a := 0; a < 5; a++ {
				for b := 0; b < 5; b++ {
					evs := []eev{c.emuEvent(a), c.emuEvent(b), {kind: "lastid"}, c.emuEvent(5), c.emuEvent(2), c.emuEvent(0), {kind: "lastid"}, c.emuEvent(5)}
					c.emitEmu("emu", evs)
				}
			}
		}
		emuFrag = 0
		// transmit in measurement mode: frames at the boundaries of the standard / extended format, well-formed and not
		for _, n := range []int{247, 248, 250, 253, 254, 255, 256, 2040, 2041, 2042, 2047, 2048} {
			good := []byte(xsens.NewMessage(xsens.MessageIdentifierMTData2, c.payload(n)))
			evs := []eev{c.emuEvent(2), {kind: "transmit", frame: good}}
			// extended layout declaring n data bytes (malformed below 255), consistent size and checksum
			ext := append([]byte{0xfa, 0xff, 0x36, 0xff, byte(n >> 8), byte(n)}, c.payload(n)...)
			var sum byte
			for _, x := range ext[1:] {
				sum += x
			}
			ext = append(ext, -sum)
			evs = append(evs, eev{kind: "transmit", frame: ext})
			// and one more data byte than declared
			evs = append(evs, eev{kind: "transmit", frame: append(append([]byte(nil), ext[:len(ext)-1]...), 0, 0)}, eev{kind: "lastid"})
			c.emitEmu("emu", evs)
		}
		extra := append([]byte{0xfa, 0xff, 0x36, 0xff, 0x08, 0x01}, c.payload(2049)...)
		c.emitEmu("emu", []eev{c.emuEvent(2), {kind: "transmit", frame: append(extra, 0)}})
		// random longer histories, including a malformed incoming frame (the receive loop returns) and SetOutputConguration
		for i := 0; i < c.pick(150, 1500); i++ {
			n := 6 + c.rng.Intn(10)
			var evs []eev
			for j := 0; j < n; j++ {
				switch c.rng.Intn(12) {
				case 0:
					evs = append(evs, eev{kind: "lastid"})
				case 1:
					evs = append(evs, eev{kind: "setconf", cfg: c.outConfig(c.rng.Intn(4))})
				case 2:
					evs = append(evs, eev{kind: "marshal", dtype: supportedTypes[c.rng.Intn(len(supportedTypes))]})
				case 3:
					if c.rng.Intn(4) == 0 {
						bad := []byte(xsens.NewMessage(xsens.MessageIdentifierGotoConfig, nil))
						bad[len(bad)-1] ^= 0x40
						evs = append(evs, eev{kind: "recv", frame: bad})
					}
				default:
					evs = append(evs, c.emuEvent(c.rng.Intn(7)))
				}
			}
			evs = append(evs, eev{kind: "lastid"})
			c.emitEmu("emu", evs)
		}
	}
}
