package main

import (
	"bytes"
	"context"
	"encoding/binary"
	"io"
	"reflect"

	"go.einride.tech/xsens"
)

// C12: every one of the 65536 wire identifiers, through the public API only.
func init() {
	props["C12"] = func(c *ctx) {
		for v := 0; v < 65536; v++ {
			var id xsens.DataIdentifier
			id.SetUint16(uint16(v))
			ds := int(id.DataSize())
			// a measurement message with one packet of that identifier and DataSize bytes of data
			pkt := append([]byte{byte(v >> 8), byte(v), byte(ds)}, make([]byte, ds)...)
			stream := []byte(xsens.NewMessage(xsens.MessageIdentifierMTData2, pkt))
			cl := xsens.NewClient(&scriptedPort{r: &chunkReader{data: stream, final: io.EOF}})
			scan, disp := false, false
			enc := -1
			acc, acc1 := false, false
			protect(func() {
				if err := cl.Receive(context.Background()); err != nil {
					return
				}
				scan = cl.ScanMeasurementData()
				md := cl.MeasurementData()
				if md == nil || reflect.ValueOf(md).IsNil() {
					return
				}
				disp = true
				if p, err := md.MarshalMTData2Packet(id); err == nil {
					enc = len(p.Data())
					// the encoder's size does not depend on the value: a second value with every field non-zero
					v2 := reflect.New(reflect.TypeOf(md).Elem()).Interface().(xsens.MeasurementData)
					pat := make([]byte, 512)
					for i := range pat {
						pat[i] = byte(1 + i%7)
					}
					if binary.Read(bytes.NewReader(pat), binary.BigEndian, v2) == nil {
						enc2 := -3 // a panic
						protect(func() {
							if p2, err := v2.MarshalMTData2Packet(id); err == nil {
								enc2 = len(p2.Data())
							} else {
								enc2 = enc
							}
						})
						if enc2 != enc {
							enc = enc2
						}
					}
				}
				try := func(n int, want bool) bool {
					if n < 0 {
						return false
					}
					fresh := reflect.New(reflect.TypeOf(md).Elem()).Interface().(xsens.MeasurementData)
					p := append([]byte{byte(v >> 8), byte(v), byte(n)}, make([]byte, n)...)
					ok := false
					protect(func() { ok = fresh.UnmarshalMTData2Packet(xsens.MTData2Packet(exact(p))) == nil })
					// the same packet as a view into a longer buffer (what the client hands to the decoders)
					fresh2 := reflect.New(reflect.TypeOf(md).Elem()).Interface().(xsens.MeasurementData)
					ok2 := false
					protect(func() { ok2 = fresh2.UnmarshalMTData2Packet(xsens.MTData2Packet(roomy(p, 24))) == nil })
					if ok != ok2 {
						return !want // acceptance depends on what lies behind the packet: report the unwanted answer
					}
					if !want && n+1 < 256 {
						// the same short packet cut out of a longer one by re-slicing: the length byte still announces one byte
						// more, and that byte lies behind the slice's end
						full := roomy(append([]byte{byte(v >> 8), byte(v), byte(n + 1)}, make([]byte, n+1)...), 24)
						fresh3 := reflect.New(reflect.TypeOf(md).Elem()).Interface().(xsens.MeasurementData)
						ok3 := true // a panic counts as the unwanted answer
						protect(func() { ok3 = fresh3.UnmarshalMTData2Packet(xsens.MTData2Packet(full[:3+n])) == nil })
						if ok3 {
							return true
						}
					}
					return ok
				}
				acc, acc1 = try(ds, true), try(ds-1, false)
			})
			c.emit("size", tup(zs(int64(v)), zs(int64(ds)), zs(int64(enc)), cbool(acc), cbool(acc1), cbool(scan), cbool(disp)))
			if disp {
				c.count("dispatched")
			}
		}
		c.notes = append(c.notes, "exhaustive: all 65536 wire identifiers")
	}
}
