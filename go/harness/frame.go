package main

import (
	"bufio"
	"bytes"
	"context"
	"encoding/hex"
	"fmt"
	"io"

	"go.einride.tech/xsens"
)

var alphabet = []byte{0xfa, 0xff, 0x00, 0x01, 0x02, 0xfe}

// allStrings calls f with every string over the alphabet of length 0..maxLen.
func allStrings(maxLen int, f func([]byte)) {
	var rec func(cur []byte)
	rec = func(cur []byte) {
		cp := append([]byte(nil), cur...)
		f(cp)
		if len(cur) == maxLen {
			return
		}
		for _, a := range alphabet {
			rec(append(cur, a))
		}
	}
	rec(nil)
}

// accObs calls every accessor of a frame and renders the observable.
func accObs(m xsens.Message) string {
	var mid, length, code int64
	var ext, isErr bool
	var data []byte
	if p, _ := protect(func() {
		mid = int64(m.Identifier())
		length = int64(m.Length())
		ext = m.IsExtended()
		data = append([]byte(nil), m.Data()...)
		isErr = m.IsError()
		code = int64(m.ErrorCode())
	}); p {
		return "APanic"
	}
	return fmt.Sprintf("(AVals %d %d %s %s %s %d)", mid, length, cbool(ext), nlist(data), cbool(isErr), code)
}

// observeValidate runs Validate, String and (on accepted frames) the accessors on m.
func observeValidate(m xsens.Message) (verdict int, render int, acc string) {
	var err error
	if p, _ := protect(func() { err = m.Validate() }); p {
		verdict = 2
	} else if err != nil {
		verdict = 1
	}
	var s string
	if p, _ := protect(func() { s = m.String() }); p {
		render = 3
	} else {
		render = 4
		if s == fmt.Sprintf("InvalidMessage(%s)", hex.EncodeToString(m)) {
			render = 0
		} else if len(m) >= 5 {
			hdr := 4
			if m[3] == 0xff {
				hdr = 6
			}
			if hdr <= len(m)-1 {
				payload := m[hdr : len(m)-1]
				mid := xsens.MessageIdentifier(m[2])
				if len(payload) == 1 && mid == xsens.MessageIdentifierError && s == fmt.Sprintf("%v(%v)", mid, xsens.ErrorCode(payload[0])) {
					render = 1
				} else if s == fmt.Sprintf("%v(%s)", mid, hex.EncodeToString(payload)) {
					render = 2
				}
			}
		}
	}
	acc = "ANone"
	if verdict == 0 {
		acc = accObs(m)
	}
	return
}

func (c *ctx) emitValidate(kind string, m []byte) {
	for _, extra := range []int{0, 3} {
		var buf []byte
		if extra == 0 {
			buf = exact(m)
		} else {
			buf = roomy(m, extra)
		}
		v, r, a := observeValidate(xsens.Message(buf))
		c.emit(kind, tup(nlist(m), us(uint64(extra)), us(uint64(v)), us(uint64(r)), a))
		c.count(fmt.Sprintf("validate-verdict-%d", v))
	}
}

// errorFrames: constructed frames with the Error identifier - all 256 codes, and payloads of 0, 2, 3 and 255 bytes - as
// validate cases (verdict, rendering, accessors)
func (c *ctx) errorFrames() {
	for code := 0; code < 256; code++ {
		c.emitValidate("validate", xsens.NewMessage(xsens.MessageIdentifierError, []byte{byte(code)}))
	}
	for _, n := range []int{0, 2, 3, 254, 255} {
		c.emitValidate("validate", xsens.NewMessage(xsens.MessageIdentifierError, c.payload(n)))
	}
	c.count("error-identifier-frames")
}

// newMessageCase: a frame constructed by the library for this identifier and payload - the bytes, the verdict of
// validation, what the split function delivers for it under fragmentation, and the accessors
func (c *ctx) newMessageCase(mid byte, p []byte) {
	var f xsens.Message
	fr := "OP"
	v := 2
	var toks [][]byte
	acc := "ANone"
	if pan, _ := protect(func() { f = xsens.NewMessage(xsens.MessageIdentifier(mid), p) }); !pan {
		fr = "(OB " + nlist(f) + ")"
		v, _, acc = observeValidate(f)
		if v != 0 {
			if pan2, _ := protect(func() { acc = accObs(f) }); pan2 {
				acc = "APanic"
			}
		}
		protect(func() { toks = scanTokensFragmented(c, f) })
	}
	c.emit("newmsg", tup(us(uint64(mid)), nlist(p), fr, us(uint64(v)), nlists(toks), acc))
}

// framingBoundary: the frames this property's streams are built from come from the library's own constructor; its
// behaviour at the boundaries of the two length formats is part of every such property's input
func (c *ctx) framingBoundary(mids ...byte) {
	for _, n := range []int{0, 1, 250, 251, 252, 253, 254, 255, 256, 257, 258, 2046, 2047, 2048} {
		for _, mid := range mids {
			c.newMessageCase(mid, c.payload(n))
		}
	}
	c.count("framing-boundary-frames")
}

// lengths biased to the protocol's boundaries
func (c *ctx) payloadLen() int {
	switch c.rng.Intn(10) {
	case 0:
		return 0
	case 1:
		return 1
	case 2:
		return 253 + c.rng.Intn(4)
	case 3:
		return 2046 + c.rng.Intn(3)
	case 4:
		return c.rng.Intn(2049)
	default:
		return c.rng.Intn(64)
	}
}

// payload with protocol-significant bytes sprinkled in
func (c *ctx) payload(n int) []byte {
	p := make([]byte, n)
	mode := c.rng.Intn(4)
	for i := range p {
		switch mode {
		case 0:
			p[i] = byte(c.rng.Intn(256))
		case 1:
			p[i] = alphabet[c.rng.Intn(len(alphabet))]
		case 2:
			if i%2 == 0 {
				p[i] = 0xfa
			} else {
				p[i] = 0xff
			}
		default:
			p[i] = byte(i)
		}
	}
	return p
}

func (c *ctx) randomFrame() []byte {
	mid := byte(c.rng.Intn(256))
	if c.rng.Intn(4) == 0 {
		mid = 0x36
	}
	return []byte(xsens.NewMessage(xsens.MessageIdentifier(mid), c.payload(c.payloadLen())))
}

// mutate returns a damaged copy of a frame
func (c *ctx) mutate(f []byte) []byte {
	g := append([]byte(nil), f...)
	switch c.rng.Intn(7) {
	case 0: // truncate
		if len(g) > 0 {
			g = g[:c.rng.Intn(len(g))]
		}
	case 1: // extend
		g = append(g, byte(c.rng.Intn(256)))
	case 2: // flip a byte
		if len(g) > 0 {
			g[c.rng.Intn(len(g))] ^= byte(1 + c.rng.Intn(255))
		}
	case 3: // length byte
		if len(g) > 3 {
			g[3] = []byte{0xff, 0x00, 0xfe, byte(c.rng.Intn(256))}[c.rng.Intn(4)]
		}
	case 4: // extended length bytes
		if len(g) > 5 {
			g[4], g[5] = byte(c.rng.Intn(256)), byte(c.rng.Intn(256))
		}
	case 5: // drop a byte in the middle
		if len(g) > 1 {
			i := c.rng.Intn(len(g))
			g = append(g[:i], g[i+1:]...)
		}
	case 6: // fix the checksum after a length change so that only the size is wrong
		if len(g) > 4 {
			g[3]++
			var s byte
			for _, b := range g[1 : len(g)-1] {
				s += b
			}
			g[len(g)-1] = -s
		}
	}
	return g
}

func scanTokens(stream []byte) [][]byte {
	sc := bufio.NewScanner(bytes.NewReader(stream))
	sc.Split(xsens.ScanMessages)
	var toks [][]byte
	for sc.Scan() {
		toks = append(toks, append([]byte(nil), sc.Bytes()...))
	}
	return toks
}

// scanTokensFragmented delivers the stream through a real bufio.Scanner under several read fragmentations (whole,
// one byte per read, a single cut at each of the first positions and before the checksum, the frame twice in a row
// cut inside the second header, a random schedule); returns the tokens of the first fragmentation that differs
// from the whole-stream ones (so the comparison with the model fails on it), else the whole-stream tokens.
func scanTokensFragmented(c *ctx, f []byte) [][]byte {
	whole := scanTokens(f)
	same := func(a, b [][]byte) bool {
		if len(a) != len(b) {
			return false
		}
		for i := range a {
			if !bytes.Equal(a[i], b[i]) {
				return false
			}
		}
		return true
	}
	var scheds [][]int
	ones := make([]int, len(f))
	for i := range ones {
		ones[i] = 1
	}
	if len(f) <= 600 || c.thorough() {
		scheds = append(scheds, ones)
	}
	for cut := 1; cut <= 7 && cut < len(f); cut++ {
		scheds = append(scheds, []int{cut, len(f) - cut})
	}
	if len(f) > 2 {
		scheds = append(scheds, []int{len(f) - 1, 1})
		k := 1 + c.rng.Intn(len(f)-1)
		scheds = append(scheds, []int{k, 0, len(f) - k})
	}
	for _, sch := range scheds {
		toks, _ := runScanner(f, sch, io.EOF, false)
		if !same(toks, whole) {
			c.count("fragmentation-differs")
			return toks
		}
	}
	// through the client (its own bufio.Scanner set-up): Receive must deliver the same frame; a receive error ends the list
	for _, sch := range [][]int{nil, {4096, 4096}} {
		cl := xsens.NewClient(&scriptedPort{r: &chunkReader{data: append([]byte(nil), f...), sched: append([]int(nil), sch...), final: io.EOF}})
		var toks [][]byte
		for i := 0; i < len(whole)+2; i++ {
			var err error
			if p, _ := protect(func() { err = cl.Receive(context.Background()) }); p {
				break
			}
			raw := cl.RawMessage()
			if raw == nil {
				break
			}
			_ = err // a rejected frame is still the scanner's token
			toks = append(toks, append([]byte(nil), raw...))
		}
		if !same(toks, whole) {
			c.count("client-delivery-differs")
			return toks
		}
	}
	// the same frame twice: the second header split after its preamble, when the first frame has been consumed
	if len(f) <= 600 {
		two := append(append([]byte(nil), f...), f...)
		toks, _ := runScanner(two, []int{len(f) + 1, len(f) - 1}, io.EOF, false)
		ref := scanTokens(two)
		if !same(toks, ref) {
			c.count("fragmentation-differs")
			if len(toks) > 0 {
				return toks[:len(toks)-1]
			}
			return nil
		}
	}
	return whole
}

func nlists(bs [][]byte) string {
	s := "["
	for i, b := range bs {
		if i > 0 {
			s += ";"
		}
		s += nlist(b)
	}
	return s + "]"
}

func init() {
	props["C02"] = func(c *ctx) {
		// corpus: the witnesses of the repaired defect F1 and other boundary cases, always first
		for _, h := range []string{"faff00ff02", "faff0005fc", "faff00000100", "faff00ff0100", "faff3000d1", "faff420104ba",
			"faffffff00ff", "", "fa", "faff", "faff00", "faff0000", "faff000001", "faff00ff00ff0000"} {
			b, _ := hex.DecodeString(h)
			c.emitValidate("validate", b)
		}
		// a frame built for 300 bytes with a standard length byte (pre-fix NewMessage shape)
		{
			p := c.payload(300)
			f := append([]byte{0xfa, 0xff, 0x10, byte(300 % 256)}, p...)
			var s byte
			for _, b := range f[1:] {
				s += b
			}
			f = append(f, -s)
			c.emitValidate("validate", f)
		}
		// frames with the Error identifier: every code, and the payload lengths next to one
		c.errorFrames()
		// bounded-exhaustive over the protocol alphabet
		allStrings(c.pick(4, 5), func(b []byte) { c.emitValidate("validate", b) })
		allStrings(c.pick(4, 5), func(b []byte) { c.emitValidate("validate", append([]byte{0xfa, 0xff}, b...)) })
		c.count("alphabet-exhaustive")
		// random frames and their mutations
		n := c.pick(250, 2500)
		for i := 0; i < n; i++ {
			f := c.randomFrame()
			c.emitValidate("validate", f)
			c.emitValidate("validate", c.mutate(f))
			c.emitValidate("validate", c.mutate(c.mutate(f)))
		}
		// single-byte corruptions: every position x sampled deltas of short frames, sampled of long ones
		nf := c.pick(60, 400)
		for i := 0; i < nf; i++ {
			f := c.randomFrame()
			if len(f) > 600 && i%8 != 0 {
				f = []byte(xsens.NewMessage(xsens.MessageIdentifier(c.rng.Intn(256)), c.payload(c.rng.Intn(40))))
			}
			positions := len(f)
			for k := 0; k < positions; k++ {
				pos := k
				if len(f) > 80 {
					pos = c.rng.Intn(len(f))
					if k >= 60 {
						break
					}
				}
				for _, d := range []int{1, 0x80, 0xff, 1 + c.rng.Intn(255)} {
					g := exact(f)
					g[pos] = byte(int(g[pos]) + d)
					v, _, _ := observeValidate(xsens.Message(g))
					c.emit("corrupt", tup(nlist(f), us(uint64(pos)), us(uint64(d)), us(uint64(v))))
				}
			}
		}
		// all 255 deltas at every position of one short frame
		{
			f := []byte(xsens.NewMessage(0x36, []byte{0x10, 0x20, 0x02, 0xfa, 0xff}))
			for pos := range f {
				for d := 1; d < 256; d++ {
					g := exact(f)
					g[pos] = byte(int(g[pos]) + d)
					v, _, _ := observeValidate(xsens.Message(g))
					c.emit("corrupt", tup(nlist(f), us(uint64(pos)), us(uint64(d)), us(uint64(v))))
				}
			}
		}
		c.clientCorruptStreams()
		// the client clause through the command loop: a command must not succeed on a damaged acknowledge
		c.commandCases("client", c.pick(60, 400))
	}

	props["C06"] = func(c *ctx) {
		emit := c.newMessageCase
		// corpus: boundary lengths (F2 witness: 255), all identifiers at the boundaries
		for _, n := range []int{0, 1, 254, 255, 256, 257, 2047, 2048} {
			for mid := 0; mid < 256; mid += c.pick(5, 1) {
				emit(byte(mid), c.payload(n))
			}
		}
		// every length 0..2048 (quick: every length to 300, then every 9th)
		for n := 0; n <= 2048; n++ {
			if !c.thorough() && n > 300 && n%9 != 0 {
				continue
			}
			emit(byte(c.rng.Intn(256)), c.payload(n))
		}
		// adversarial content: FA FF runs, payloads that look like frames
		for i := 0; i < c.pick(40, 300); i++ {
			inner := c.randomFrame()
			if len(inner) > 2048 {
				inner = inner[:2048]
			}
			emit(byte(c.rng.Intn(256)), inner)
			emit(0x42, []byte{byte(i)})
		}
		// all 256 error codes, and error-like frames that are not errors
		for code := 0; code < 256; code++ {
			emit(0x42, []byte{byte(code)})
		}
		emit(0x42, nil)
		emit(0x42, []byte{1, 2})
		emit(0x43, []byte{1})
		emit(0x42, c.payload(255))
	}

	// (C06 continues) as the client reads frames: the command loop must treat a frame as a device error exactly when it is one
	c06frames := props["C06"]
	props["C06"] = func(c *ctx) {
		c06frames(c)
		c.errorFrames()
		// every short prefix of a constructed frame handed to the split function in a buffer that ends there
		for _, n := range []int{0, 1, 254, 255, 256, 2048} {
			f := []byte(xsens.NewMessage(xsens.MessageIdentifier(c.rng.Intn(256)), c.payload(n)))
			for k := 1; k <= 9 && k <= len(f); k++ {
				c.splitCase(f[:k], false)
			}
		}
		// constructed frames handed to an emulator: its scanner must deliver them too (a mode command behind each shows it)
		c.emuDelivers()
		c.commandCases("client", c.pick(40, 300))
	}

	c07walk := func(c *ctx) { c.walkCases(c.pick(150, 1500)) }
	defer func() {
		inner := props["C07"]
		props["C07"] = func(c *ctx) { inner(c); c07walk(c); c.framingBoundary(0x36) }
	}()
	props["C07"] = func(c *ctx) {
		pktAt := func(m []byte, extra int, i int) {
			var buf []byte
			if extra == 0 {
				buf = exact(m)
			} else {
				buf = roomy(m, extra)
			}
			var p xsens.MTData2Packet
			var err error
			r := "OP"
			if pan, _ := protect(func() { p, err = xsens.MTData2(buf).PacketAt(i) }); !pan {
				if err != nil {
					r = "OE"
				} else {
					r = "(OB " + nlist(p) + ")"
				}
			}
			c.emit("pktat", tup(nlist(m), us(uint64(extra)), us(uint64(i)), r))
		}
		small := []byte{0x00, 0x01, 0x02, 0x03, 0xff}
		var rec func(cur []byte, max int)
		rec = func(cur []byte, max int) {
			for i := 0; i <= len(cur); i++ {
				pktAt(cur, 0, i)
				pktAt(cur, 4, i)
			}
			if len(cur) == max {
				return
			}
			for _, a := range small {
				rec(append(append([]byte(nil), cur...), a), max)
			}
		}
		rec(nil, c.pick(4, 6))
		c.count("alphabet-exhaustive")
		// random payloads up to 2048 bytes made of packets, with damage
		for k := 0; k < c.pick(150, 1500); k++ {
			var pkts [][]byte
			var m []byte
			for len(m) < c.rng.Intn(300)+1 {
				n := []int{0, 1, 2, 3, 12, 255, c.rng.Intn(40)}[c.rng.Intn(7)]
				p := append([]byte{byte(c.rng.Intn(256)), byte(c.rng.Intn(256)), byte(n)}, c.payload(n)...)
				pkts = append(pkts, p)
				m = append(m, p...)
			}
			// walk with PacketAt
			var got [][]byte
			i := 0
			protect(func() {
				for {
					p, err := xsens.MTData2(exact(m)).PacketAt(i)
					if err != nil {
						break
					}
					got = append(got, append([]byte(nil), p...))
					i += len(p)
					if len(p) == 0 || len(got) > len(m)+1 {
						break // a packet without its header: the walk would never end (the case records where it stopped)
					}
				}
			})
			c.emit("walk", tup(nlists(pkts), nlists(got), us(uint64(i))))
			// offsets: packet starts, inside packets, the end, with both capacities
			for t := 0; t < 6; t++ {
				off := c.rng.Intn(len(m) + 1)
				pktAt(m, 0, off)
				pktAt(m, 7, off)
			}
			pktAt(m, 0, len(m))
			// truncated payload (the Message.Data() shape: spare capacity holds the checksum)
			if len(m) > 3 {
				cut := c.rng.Intn(len(m))
				pktAt(m[:cut], 0, 0)
				pktAt(m[:cut], len(m)-cut, c.rng.Intn(cut+1))
			}
		}
		// constructor: all 256 lengths x sampled identifiers
		for n := 0; n < 256; n++ {
			for _, w := range []uint16{0x2010, 0x4020 | 3, 0xe020, uint16(c.rng.Intn(65536)) & 0xf8ff} {
				var id xsens.DataIdentifier
				id.SetUint16(w)
				r := "OP"
				var p xsens.MTData2Packet
				if pan, _ := protect(func() { p = xsens.NewMTData2Package(uint8(n), id) }); !pan {
					r = "(OB " + nlist(p) + ")"
				}
				c.emit("newpkt", tup(us(uint64(n)), us(uint64(w)), r))
			}
		}
	}
}
