package main

import (
	"context"
	"io"
	"time"

	"go.einride.tech/xsens"
	"go.einride.tech/xsens/xsensemulator"
)

func recTerm(u *xsens.UTCTime) string {
	return tup(us(uint64(u.Ns)), us(uint64(u.Year)), us(uint64(u.Month)), us(uint64(u.Day)), us(uint64(u.Hour)),
		us(uint64(u.Minute)), us(uint64(u.Second)))
}

func instTerm(t time.Time) string { return tup(zs(t.Unix()), zs(int64(t.Nanosecond()))) }

func init() {
	props["C19"] = func(c *ctx) {
		c.framingBoundary(0x36)
		zones := []int{0, 3600, -3600, 19800, 20700, -12600, 50400, -43200, 1, -1, 45 * 60, 13*3600 + 45*60}
		t2r := func(t time.Time) {
			var u xsens.UTCTime
			u.UnmarshalTime(t)
			back := u.Time()
			_, off := t.Zone()
			c.emit("t2r", tup(zs(t.Unix()), zs(int64(t.Nanosecond())), zs(int64(off)), recTerm(&u), instTerm(back)))
		}
		// boundary-biased instants: leap days, year/month/day/hour rollovers, ns 0 and 999999999, every zone
		years := []int{1, 2, 4, 100, 399, 400, 401, 1582, 1600, 1900, 1970, 1999, 2000, 2001, 2023, 2024, 2038, 2100, 2400, 9998, 9999}
		for _, y := range years {
			for _, md := range [][2]int{{1, 1}, {2, 28}, {2, 29}, {3, 1}, {6, 30}, {12, 31}, {7, 4}} {
				for _, hms := range [][3]int{{0, 0, 0}, {23, 59, 59}, {12, 0, 0}, {0, 0, 1}, {23, 0, 59}} {
					for _, ns := range []int{0, 999999999, 1, 500000000} {
						base := time.Date(y, time.Month(md[0]), md[1], hms[0], hms[1], hms[2], ns, time.UTC)
						if base.Year() < 1 || base.Year() > 9999 {
							continue
						}
						z := zones[c.rng.Intn(len(zones))]
						t := base.In(time.FixedZone("z", z))
						// keep the UTC year inside 1..9999
						if t.UTC().Year() < 1 || t.UTC().Year() > 9999 {
							continue
						}
						t2r(t)
						if ns == 0 && hms[0] == 0 {
							t2r(base.In(time.FixedZone("q", zones[c.rng.Intn(len(zones))])))
						}
					}
				}
			}
		}
		// the same through the wire and the client: the record is sent as a UTCTime packet of a measurement message
		// that also holds packets of other data types (each of the 512 group/type values in turn, except UTCTime's own;
		// most have no record in the client), and is read back from the client after the scan loop
		nthType := 0
		wire := func(t time.Time) {
			var u xsens.UTCTime
			u.UnmarshalTime(t)
			pkt, err := u.MarshalMTData2Packet(xsens.DataIdentifier{DataType: xsens.DataTypeUTCTime})
			if err != nil {
				pkt = nil
			}
			other := func(known bool) []byte {
				var dt xsens.DataType
				for {
					if known { // the scan loop stops at a data type the client has no record for
						dt = supportedTypes[c.rng.Intn(len(supportedTypes))]
						if dt != xsens.DataTypeUTCTime {
							break
						}
						continue
					}
					v := nthType % 512
					nthType++
					dt = xsens.DataType((v&0x1f)<<11 | (v>>5)<<4)
					if dt != xsens.DataTypeUTCTime {
						break
					}
				}
				id := xsens.DataIdentifier{DataType: dt, CoordinateSystem: xsens.CoordinateSystem(c.rng.Intn(4) << 2), Precision: xsens.Precision(c.rng.Intn(4))}
				n := int(id.DataSize())
				if n == 0 {
					n = []int{12, 4, 0, 1 + c.rng.Intn(40)}[c.rng.Intn(4)]
				}
				p := xsens.NewMTData2Package(uint8(n), id)
				c.rng.Read(p[3:])
				return p
			}
			var payload []byte
			switch c.rng.Intn(4) {
			case 3: // an extended-length frame (255 data bytes or more) whose last packet is the record
				for len(payload)+len(pkt) < 255 || c.rng.Intn(3) == 0 {
					payload = append(payload, other(true)...)
					if len(payload) > 1500 {
						break
					}
				}
				payload = append(payload, pkt...)
			case 0:
				payload = append(append(payload, pkt...), other(false)...)
			case 1:
				payload = append(append(payload, other(true)...), pkt...)
			default:
				payload = append(append(append(payload, other(true)...), pkt...), other(false)...)
			}
			port := &scriptedPort{r: &chunkReader{data: xsens.NewMessage(xsens.MessageIdentifierMTData2, payload), final: io.EOF}}
			cl := xsens.NewClient(port)
			delivered := 0
			protect(func() {
				if err := cl.Receive(context.Background()); err != nil {
					return
				}
				for steps := 0; steps < 4096 && cl.ScanMeasurementData(); steps++ {
					if _, ok := cl.MeasurementData().(*xsens.UTCTime); ok {
						delivered++
					}
				}
			})
			rec := *cl.UTCTime()
			back := rec.Time()
			if delivered != 1 {
				// delivered twice or never: not the record that was sent
				rec.Ns, back = 0xffffffff, time.Unix(0, 0)
			}
			_, off := t.Zone()
			c.emit("t2r", tup(zs(t.Unix()), zs(int64(t.Nanosecond())), zs(int64(off)), recTerm(&rec), instTerm(back)))
			c.count("through-client")
		}
		for i := 0; i < c.pick(1100, 6000); i++ {
			first := time.Date(1, 1, 1, 0, 0, 0, 0, time.UTC).Unix()
			sec := first + c.rng.Int63n(time.Date(9999, 12, 31, 23, 59, 59, 0, time.UTC).Unix()-first)
			ns := []int64{0, 999999999, c.rng.Int63n(1000000000)}[c.rng.Intn(3)]
			wire(time.Unix(sec, ns).In(time.FixedZone("w", zones[c.rng.Intn(len(zones))])))
		}
		// the record handed out by the client's accessor is the client's own: a pointer taken once shows every later message
		for i := 0; i < c.pick(60, 600); i++ {
			var stream []byte
			var ts []time.Time
			for k := 0; k < 3; k++ {
				first := time.Date(1, 1, 1, 0, 0, 0, 0, time.UTC).Unix()
				sec := first + c.rng.Int63n(time.Date(9999, 12, 31, 23, 59, 59, 0, time.UTC).Unix()-first)
				t := time.Unix(sec, c.rng.Int63n(1000000000)).In(time.FixedZone("k", zones[c.rng.Intn(len(zones))]))
				var u xsens.UTCTime
				u.UnmarshalTime(t)
				pkt, _ := u.MarshalMTData2Packet(xsens.DataIdentifier{DataType: xsens.DataTypeUTCTime})
				stream = append(stream, xsens.NewMessage(xsens.MessageIdentifierMTData2, pkt)...)
				ts = append(ts, t)
			}
			cl := xsens.NewClient(&scriptedPort{r: &chunkReader{data: stream, final: io.EOF}})
			kept := cl.UTCTime()
			for k := 0; k < 3; k++ {
				protect(func() {
					if cl.Receive(context.Background()) == nil {
						for steps := 0; steps < 64 && cl.ScanMeasurementData(); steps++ {
						}
					}
				})
				rec := *kept
				back := rec.Time()
				_, off := ts[k].Zone()
				c.emit("t2r", tup(zs(ts[k].Unix()), zs(int64(ts[k].Nanosecond())), zs(int64(off)), recTerm(&rec), instTerm(back)))
				c.count("kept-accessor-pointer")
			}
		}
		// end to end: the record is configured into an emulator by a client (go-to-config, set-output-configuration,
		// go-to-measurement over a synchronous link), encoded and transmitted by the emulator as soon as the client's
		// go-to-measurement has returned, and read back from the client
		for i := 0; i < c.pick(25, 250); i++ {
			first := time.Date(1, 1, 1, 0, 0, 0, 0, time.UTC).Unix()
			sec := first + c.rng.Int63n(time.Date(9999, 12, 31, 23, 59, 59, 0, time.UTC).Unix()-first)
			t := time.Unix(sec, c.rng.Int63n(1000000000)).In(time.FixedZone("e", zones[c.rng.Intn(len(zones))]))
			var u xsens.UTCTime
			u.UnmarshalTime(t)
			ce, ee := link(false)
			emu := xsensemulator.NewEmulator(ee)
			cl := xsens.NewClient(ce)
			ctx, cancel := context.WithCancel(context.Background())
			go func() { protect(func() { _ = emu.Receive(ctx) }) }()
			rec := xsens.UTCTime{Ns: 0xffffffff}
			got := make(chan xsens.UTCTime, 1)
			go func() {
				defer func() { _ = recover() }()
				cfg := xsens.OutputConfiguration{{DataIdentifier: xsens.DataIdentifier{DataType: xsens.DataTypeUTCTime}, OutputFrequency: 100}}
				if cl.GoToConfig(ctx) != nil || cl.SetOutputConfiguration(ctx, cfg) != nil || cl.GoToMeasurement(ctx) != nil {
					return
				}
				// the acknowledge has been read: the device is in measurement mode; transmit at once
				go func() {
					defer func() { _ = recover() }()
					if pkt, err := emu.MarshalMessage(&u, xsens.DataTypeUTCTime); err == nil {
						_ = emu.Transmit(xsens.NewMessage(xsens.MessageIdentifierMTData2, pkt))
					}
				}()
				if cl.Receive(ctx) != nil {
					return
				}
				for steps := 0; steps < 16 && cl.ScanMeasurementData(); steps++ {
				}
				got <- *cl.UTCTime()
			}()
			select {
			case rec = <-got:
			case <-time.After(2 * time.Second):
				c.count("end-to-end-timeouts")
			}
			cancel()
			_ = ce.Close()
			_ = ee.Close()
			back := rec.Time()
			_, off := t.Zone()
			c.emit("t2r", tup(zs(t.Unix()), zs(int64(t.Nanosecond())), zs(int64(off)), recTerm(&rec), instTerm(back)))
			c.count("end-to-end-through-emulator")
		}
		lo := time.Date(1, 1, 1, 0, 0, 0, 0, time.UTC).Unix()
		hi := time.Date(9999, 12, 31, 23, 59, 59, 0, time.UTC).Unix()
		for i := 0; i < c.pick(1500, 30000); i++ {
			sec := lo + c.rng.Int63n(hi-lo)
			ns := []int64{0, 999999999, c.rng.Int63n(1000000000)}[c.rng.Intn(3)]
			t := time.Unix(sec, ns).In(time.FixedZone("r", zones[c.rng.Intn(len(zones))]))
			t2r(t)
		}
		t2r(time.Date(1, 1, 1, 0, 0, 0, 0, time.UTC))
		t2r(time.Date(9999, 12, 31, 23, 59, 59, 999999999, time.UTC))
		// records -> instants -> records: every valid field combination class, and invalid ones (normalised by Go)
		r2t := func(u xsens.UTCTime) {
			t := u.Time()
			var back xsens.UTCTime
			back.UnmarshalTime(t)
			c.emit("r2t", tup(recTerm(&u), instTerm(t), recTerm(&back)))
		}
		dim := func(y, m int) int { return time.Date(y, time.Month(m)+1, 0, 0, 0, 0, 0, time.UTC).Day() }
		for _, y := range years {
			for m := 1; m <= 12; m++ {
				for _, d := range []int{1, 2, 15, 28, dim(y, m)} {
					r2t(xsens.UTCTime{Ns: uint32(c.rng.Intn(1000000000)), Year: uint16(y), Month: uint8(m), Day: uint8(d),
						Hour: uint8(c.rng.Intn(24)), Minute: uint8(c.rng.Intn(60)), Second: uint8(c.rng.Intn(60))})
				}
				r2t(xsens.UTCTime{Ns: 999999999, Year: uint16(y), Month: uint8(m), Day: uint8(dim(y, m)), Hour: 23, Minute: 59, Second: 59})
			}
		}
		for i := 0; i < c.pick(800, 20000); i++ {
			y := 1 + c.rng.Intn(9999)
			m := 1 + c.rng.Intn(12)
			r2t(xsens.UTCTime{Ns: uint32(c.rng.Intn(1000000000)), Year: uint16(y), Month: uint8(m), Day: uint8(1 + c.rng.Intn(dim(y, m))),
				Hour: uint8(c.rng.Intn(24)), Minute: uint8(c.rng.Intn(60)), Second: uint8(c.rng.Intn(60))})
		}
		// invalid fields: Go normalises them; the model must agree (the property only speaks about valid ones)
		for i := 0; i < c.pick(150, 2000); i++ {
			r2t(xsens.UTCTime{Ns: uint32(c.rng.Uint32()), Year: uint16(1 + c.rng.Intn(9000)), Month: uint8(c.rng.Intn(256)), Day: uint8(c.rng.Intn(256)),
				Hour: uint8(c.rng.Intn(256)), Minute: uint8(c.rng.Intn(256)), Second: uint8(c.rng.Intn(256))})
		}
		// GNSS position record with signed nanosecond offsets in (-1e9, 1e9)
		gn := func(g xsens.GNSSPVTData) {
			t := g.Time()
			c.emit("gnss", tup(us(uint64(g.Year)), us(uint64(g.Month)), us(uint64(g.Day)), us(uint64(g.Hour)), us(uint64(g.Min)),
				us(uint64(g.Sec)), zs(int64(g.Nano)), instTerm(t)))
		}
		nanos := []int32{0, 1, -1, 999999999, -999999999, 500000000, -500000000}
		for _, y := range years {
			for _, n := range nanos {
				gn(xsens.GNSSPVTData{Year: uint16(y), Month: 1, Day: 1, Hour: 0, Min: 0, Sec: 0, Nano: n})
				gn(xsens.GNSSPVTData{Year: uint16(y), Month: 12, Day: 31, Hour: 23, Min: 59, Sec: 59, Nano: n})
				gn(xsens.GNSSPVTData{Year: uint16(y), Month: 3, Day: 1, Hour: 12, Min: 10, Sec: 0, Nano: n})
			}
		}
		for i := 0; i < c.pick(500, 10000); i++ {
			y := 1 + c.rng.Intn(9999)
			m := 1 + c.rng.Intn(12)
			gn(xsens.GNSSPVTData{Year: uint16(y), Month: uint8(m), Day: uint8(1 + c.rng.Intn(dim(y, m))), Hour: uint8(c.rng.Intn(24)),
				Min: uint8(c.rng.Intn(60)), Sec: uint8([]int{0, 0, 59, c.rng.Intn(60)}[c.rng.Intn(4)]),
				Nano: int32(c.rng.Int63n(1999999999) - 999999999)})
		}
		for u := 0; u < 256; u++ {
			v := xsens.UTCValidity(u)
			c.emit("valid", tup(zs(int64(u)), cbool(v.IsDateValid()), cbool(v.IsTimeOfDayValid()), cbool(v.IsTimeOfDayFullyResolved())))
		}
	}
}
