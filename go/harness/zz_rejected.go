package main

import (
	"io"

	"go.einride.tech/xsens"
)

// rejectedWalk: a measurement frame that fails validation (one bit of its last payload byte or of its checksum flipped,
// the length bytes intact, so the stream scanner still delivers it) in front of, or between, accepted measurement frames -
// and the packet scan called after the refusal, as a consumer does that logs the error and goes on scanning.  Nothing of
// the rejected frame may be handed out, and nothing of the frame before it may be handed out again.
func (c *ctx) rejectedWalk(kind string, n int) {
	mk := func(big bool) ([]byte, int) {
		var payload []byte
		np := 2 + c.rng.Intn(4)
		for k := 0; k < np; k++ {
			payload = append(payload, c.packet(0)...)
		}
		for big && len(payload) < 1800 {
			payload = append(payload, c.packet(0)...)
			np++
		}
		return []byte(xsens.NewMessage(xsens.MessageIdentifierMTData2, payload)), np
	}
	look := []cop{{kind: "scan"}, {kind: "rawpkt"}, {kind: "dtype"}, {kind: "meas"}}
	for i := 0; i < n; i++ {
		good, ng := mk(c.rng.Intn(3) == 0)
		bad, nb := mk(false)
		bad = append([]byte(nil), bad...)
		bad[len(bad)-1-c.rng.Intn(2)] ^= 1 << uint(c.rng.Intn(8))
		var stream []byte
		var ops []cop
		most := ng
		if nb > most {
			most = nb
		}
		if c.rng.Intn(2) == 0 {
			// a fresh client whose first frame is rejected
			stream = append(append(stream, bad...), good...)
			ops = append(ops, cop{kind: "receive"})
			for k := 0; k < nb+1; k++ {
				ops = append(ops, look...)
			}
			ops = append(ops, cop{kind: "receive"})
			for k := 0; k < 2; k++ {
				ops = append(ops, look...)
			}
			c.count("rejected-frame-first")
		} else {
			// an accepted frame walked in part, then the rejected one
			stream = append(append(append(stream, good...), bad...), good...)
			ops = append(ops, cop{kind: "receive"})
			part := c.rng.Intn(ng + 1)
			for k := 0; k < part; k++ {
				ops = append(ops, cop{kind: "scan"}, cop{kind: "meas"})
			}
			ops = append(ops, cop{kind: "receive"})
			for k := 0; k < most+2; k++ {
				ops = append(ops, look...)
			}
			ops = append(ops, cop{kind: "receive"}, cop{kind: "scan"}, cop{kind: "meas"})
			c.count("rejected-frame-after-partial-walk")
		}
		ops = append(ops, cop{kind: "receive"}, cop{kind: "receive"}, cop{kind: "scan"})
		c.emitClient(kind, stream, nil, io.EOF, false, nil, ops)
	}
}

// walkCases: the client's walk over packets of decodable, undecodable (no record in the client) and short-data kinds in any
// order; the scan is called again after it has refused a packet (it must move on, never deliver one twice).
func (c *ctx) walkCases(n int) {
	for i := 0; i < n; i++ {
		var payload []byte
		np := 1 + c.rng.Intn(6)
		for k := 0; k < np; k++ {
			payload = append(payload, c.packet([]int{0, 0, 1, 2, 2, 3}[c.rng.Intn(6)])...)
		}
		if c.rng.Intn(5) == 0 {
			payload = payload[:c.rng.Intn(len(payload)+1)]
		}
		stream := []byte(xsens.NewMessage(xsens.MessageIdentifierMTData2, payload))
		ops := []cop{{kind: "receive"}}
		for k := 0; k < np+3; k++ {
			ops = append(ops, cop{kind: "scan"}, cop{kind: "rawpkt"}, cop{kind: "dtype"})
		}
		c.emitClient("client", stream, nil, io.EOF, false, nil, ops)
	}
}

// reidentified: a packet built for one identifier and then given another one with SetIdentifier is the packet built for
// the second one - nothing of the first identifier's format bits stays behind.
func (c *ctx) reidentified(n int) {
	for i := 0; i < n; i++ {
		w1 := uint16(c.rng.Intn(65536))
		if c.rng.Intn(3) == 0 {
			w1 |= 0x00ff // every format bit set
		}
		w2 := []uint16{0x2010, 0x4020 | 3, 0xe020, 0x1020, uint16(c.rng.Intn(65536)) & 0xf8ff, uint16(c.rng.Intn(65536)) & 0xf8f0}[c.rng.Intn(6)]
		ln := c.rng.Intn(256)
		var id1, id2 xsens.DataIdentifier
		id1.SetUint16(w1)
		id2.SetUint16(w2)
		r := "OP"
		var p xsens.MTData2Packet
		if pan, _ := protect(func() {
			p = xsens.NewMTData2Package(uint8(ln), id1)
			p.SetIdentifier(id2)
		}); !pan {
			r = "(OB " + nlist(p) + ")"
		}
		c.emit("newpkt", tup(us(uint64(ln)), us(uint64(w2)), r))
		c.count("packet-reidentified")
	}
}

func init() {
	for _, id := range []string{"C07", "C11"} {
		inner := props[id]
		props[id] = func(c *ctx) { inner(c); c.reidentified(c.pick(300, 3000)) }
	}
	// the walk is also how C12's "non-zero size <=> the client can decode" and C19's records are reached
	for _, id := range []string{"C12", "C19"} {
		inner := props[id]
		props[id] = func(c *ctx) { inner(c); c.walkCases(c.pick(100, 1000)) }
	}
	for _, id := range []string{"C02", "C03", "C07", "C09", "C19"} {
		inner := props[id]
		props[id] = func(c *ctx) { inner(c); c.rejectedWalk("client", c.pick(40, 400)) }
	}
	// C09's totality clause covers the decoders of query results: the query cases of C14 (each call under a guard: a
	// decoder that does not return is reported like one that panics)
	c09, c14 := props["C09"], props["C14"]
	props["C09"] = func(c *ctx) { c09(c); c14(c) }
}
