package main

import (
	"bufio"
	"context"
	"errors"
	"fmt"
	"io"
	"strings"

	"go.einride.tech/xsens"
)

// portError is the failure a port reports; its code travels to the model as TPort k.
type portError struct {
	code     int
	wrapsEOF bool // a driver error whose chain ends in io.EOF: still the port's failure, not an orderly end
}

func (e *portError) Error() string { return fmt.Sprintf("port failure %d", e.code) }

func (e *portError) Unwrap() error {
	if e.wrapsEOF {
		return io.EOF
	}
	return nil
}

// chunkReader delivers data according to a schedule of requested chunk sizes (0 = an empty read, allowed
// at any time, also after the last byte); when the schedule is exhausted it fills the buffer offered.
// The terminal error is returned by a read of its own, or together with the last data (ewd).
type chunkReader struct {
	data  []byte
	sched []int
	final error
	ewd   bool
	reads int
	// A port is not obliged to repeat its failure: once the terminal error has been reported, a reader that comes back
	// anyway finds a further complete frame and then an orderly end.  (The client stops reading at the first error, so
	// this is never seen on the unchanged tree.)
	reported bool
	after    []byte
}

func (r *chunkReader) terminal() error {
	if !r.reported {
		r.reported = true
		r.after = []byte{0xfa, 0xff, 0x3e, 0x00, 0xc3}
	}
	return r.final
}

func (r *chunkReader) Read(p []byte) (int, error) {
	r.reads++
	if len(r.sched) > 0 && r.sched[0] == 0 {
		r.sched = r.sched[1:]
		return 0, nil
	}
	if r.reported {
		n := copy(p, r.after)
		r.after = r.after[n:]
		if n == 0 {
			return 0, io.EOF
		}
		return n, nil
	}
	if len(r.data) == 0 {
		return 0, r.terminal()
	}
	k := len(p)
	if len(r.sched) > 0 {
		k = r.sched[0]
		r.sched = r.sched[1:]
	}
	n := k
	if len(p) < n {
		n = len(p)
	}
	if len(r.data) < n {
		n = len(r.data)
	}
	copy(p, r.data[:n])
	r.data = r.data[n:]
	if r.ewd && len(r.data) == 0 {
		return n, r.terminal()
	}
	return n, nil
}

func termOf(err error, final error) string {
	var pe0 *portError
	if errors.As(err, &pe0) {
		return fmt.Sprintf("(TPort %d)", pe0.code)
	}
	switch {
	case err == nil || errors.Is(err, io.EOF):
		return "TEnd"
	case errors.Is(err, bufio.ErrTooLong):
		return "TTooLong"
	case errors.Is(err, io.ErrNoProgress):
		return "TNoProgress"
	}
	var pe *portError
	if errors.As(err, &pe) {
		return fmt.Sprintf("(TPort %d)", pe.code)
	}
	return "(TPort 999999)"
}

func finalTerm(final error) string {
	if final == io.EOF {
		return "TEnd"
	}
	return termOf(final, final)
}

func ilist(xs []int) string {
	s := "["
	for i, x := range xs {
		if i > 0 {
			s += ";"
		}
		s += fmt.Sprint(x)
	}
	return s + "]"
}

// runScanner runs a real bufio.Scanner with ScanMessages over the chunking reader.
func runScanner(stream []byte, sched []int, final error, ewd bool) (toks [][]byte, term string) {
	r := &chunkReader{data: append([]byte(nil), stream...), sched: append([]int(nil), sched...), final: final, ewd: ewd}
	sc := bufio.NewScanner(r)
	sc.Split(xsens.ScanMessages)
	for sc.Scan() {
		toks = append(toks, append([]byte(nil), sc.Bytes()...))
	}
	return toks, termOf(sc.Err(), final)
}

func (c *ctx) emitScan(stream []byte, sched []int, final error, ewd bool) {
	var toks [][]byte
	var term string
	if p, msg := protect(func() { toks, term = runScanner(stream, sched, final, ewd) }); p {
		term = "(TPort 888888)" // a panic inside the scanner: never equal to a model outcome
		c.notes = append(c.notes, "scanner panic: "+msg)
	}
	c.emit("scan", tup(nlist(stream), ilist(sched), finalTerm(final), cbool(ewd), nlists(toks), term))
	c.count("scan-" + term[:4])
}

// noise without the pair FA FF; may end in FA
func (c *ctx) noise() []byte {
	n := c.rng.Intn(17)
	if c.rng.Intn(3) == 0 {
		n = 0
	}
	b := make([]byte, n)
	for i := range b {
		b[i] = alphabet[c.rng.Intn(len(alphabet))]
		if c.rng.Intn(3) == 0 {
			b[i] = byte(c.rng.Intn(256))
		}
		if i > 0 && b[i-1] == 0xfa && b[i] == 0xff {
			b[i] = 0xfe
		}
	}
	return b
}

func (c *ctx) smallFrame() []byte {
	n := []int{0, 0, 1, 2, 3, 5, 8, 20}[c.rng.Intn(8)]
	return []byte(xsens.NewMessage(xsens.MessageIdentifier(c.rng.Intn(256)), c.payload(n)))
}

// framedStream: noise f1 noise f2 ... noise
func (c *ctx) framedStream(maxFrames int, small bool) (stream []byte, frames [][]byte) {
	k := c.rng.Intn(maxFrames + 1)
	stream = append(stream, c.noise()...)
	for i := 0; i < k; i++ {
		var f []byte
		if small {
			f = c.smallFrame()
		} else {
			f = c.randomFrame()
		}
		frames = append(frames, f)
		stream = append(stream, f...)
		stream = append(stream, c.noise()...)
	}
	return
}

// arbitrary stream: protocol-heavy random bytes with false headers and damaged frames
func (c *ctx) arbitraryStream(maxLen int) []byte {
	var s []byte
	for len(s) < maxLen {
		switch c.rng.Intn(8) {
		case 0:
			s = append(s, 0xfa, 0xff, byte(c.rng.Intn(256)), 0xff, byte(c.rng.Intn(256)), byte(c.rng.Intn(256)))
		case 1:
			s = append(s, c.mutate(c.smallFrame())...)
		case 2:
			s = append(s, c.smallFrame()...)
		case 3:
			s = append(s, 0xfa)
		case 4:
			s = append(s, 0xfa, 0xff)
		case 5:
			s = append(s, 0xfa, 0xff, byte(c.rng.Intn(256)), byte(c.rng.Intn(40)))
		default:
			for i := c.rng.Intn(6); i >= 0; i-- {
				s = append(s, alphabet[c.rng.Intn(len(alphabet))])
			}
		}
		if c.rng.Intn(6) == 0 {
			break
		}
	}
	if len(s) > maxLen {
		s = s[:maxLen]
	}
	return s
}

// schedules for a stream of n bytes
func (c *ctx) schedules(n int, rich bool) [][]int {
	ones := make([]int, n)
	for i := range ones {
		ones[i] = 1
	}
	out := [][]int{nil, ones}
	// random chunk sizes with empty reads
	for t := 0; t < 2; t++ {
		var s []int
		left := n
		for left > 0 {
			switch c.rng.Intn(6) {
			case 0:
				for z := c.rng.Intn(4); z >= 0; z-- {
					s = append(s, 0)
				}
			case 1:
				s = append(s, 1)
				left--
			default:
				k := 1 + c.rng.Intn(9)
				if c.rng.Intn(5) == 0 {
					k = 1 + c.rng.Intn(5000)
				}
				s = append(s, k)
				left -= k
			}
		}
		if c.rng.Intn(2) == 0 {
			s = append(s, 0, 0) // empty reads after the last byte, before the terminal error
		}
		out = append(out, s)
	}
	if rich && n > 0 {
		// a run of 99 empty reads in the middle, and 100 at the start
		cut := c.rng.Intn(n) + 1
		s := []int{cut}
		for i := 0; i < 99; i++ {
			s = append(s, 0)
		}
		out = append(out, s)
		z := make([]int, 100)
		out = append(out, z)
	}
	return out
}

var finals = []error{io.EOF, &portError{code: 7}, io.ErrUnexpectedEOF}

func (c *ctx) final() error {
	switch c.rng.Intn(3) {
	case 0:
		return io.EOF
	case 1:
		return &portError{code: 1 + c.rng.Intn(9), wrapsEOF: c.rng.Intn(3) == 0}
	}
	return &portError{code: 42}
}

// every composition of n into positive parts (2^(n-1) of them)
func compositions(n int, f func([]int)) {
	if n == 0 {
		f(nil)
		return
	}
	var rec func(left int, cur []int)
	rec = func(left int, cur []int) {
		if left == 0 {
			f(append([]int(nil), cur...))
			return
		}
		for k := 1; k <= left; k++ {
			rec(left-k, append(cur, k))
		}
	}
	rec(n, nil)
}

// splitCase: ScanMessages called directly on a buffer without spare capacity
func (c *ctx) splitCase(d []byte, eof bool) {
	if len(d) == 0 && !eof {
		return // bufio never calls the split function with no data before EOF
	}
	var adv int
	var tok []byte
	var err error
	if p, _ := protect(func() { adv, tok, err = xsens.ScanMessages(exact(d), eof) }); p || err != nil {
		c.emit("split", tup(nlist(d), cbool(eof), "99999999", "None"))
		return
	}
	t := "None"
	if tok != nil {
		t = some(nlist(tok))
	}
	c.emit("split", tup(nlist(d), cbool(eof), us(uint64(adv)), t))
}

func init() {
	props["C01"] = func(c *ctx) {
		// ---- direct calls of ScanMessages ----
		emitSplit := c.splitCase
		allStrings(c.pick(4, 5), func(b []byte) { emitSplit(b, false); emitSplit(b, true) })
		allStrings(c.pick(3, 4), func(b []byte) {
			emitSplit(append([]byte{0x01, 0xfa, 0xff, 0x10}, b...), false)
			emitSplit(append([]byte{0xfa, 0xff, 0x10, 0xff, 0x00}, b...), false)
		})
		for i := 0; i < c.pick(150, 1500); i++ {
			s := c.arbitraryStream(200)
			emitSplit(s, c.rng.Intn(2) == 0)
			st, _ := c.framedStream(3, false)
			if len(st) > 0 {
				emitSplit(st[:c.rng.Intn(len(st))+1], c.rng.Intn(2) == 0)
			}
		}
		// ---- corpus: every shape that matters, all cut positions ----
		corpus := [][]byte{
			{0x01, 0xfa, 0xfa, 0xff, 0x36, 0x00, 0xcb, 0xff, 0xfa, 0xff, 0x01, 0x02, 0x07, 0x08, 0x09, 0xfa},
			append(append([]byte{0xfa}, xsens.NewMessage(0x30, nil)...), 0xfa),
			append(append([]byte{0x12, 0xfa, 0x34}, xsens.NewMessage(0x36, []byte{0xfa, 0xff, 0x01})...), 0xfa, 0xff),
			append([]byte(xsens.NewMessage(0x10, c.payload(255))), xsens.NewMessage(0x11, nil)...),
		}
		for _, s := range corpus {
			for cut := 0; cut <= len(s); cut++ {
				if len(s) > 40 && cut > 12 && cut < len(s)-8 {
					continue
				}
				c.emitScan(s, []int{cut, len(s)}, io.EOF, false)
			}
			for _, sch := range c.schedules(len(s), true) {
				c.emitScan(s, sch, &portError{code: 3}, c.rng.Intn(2) == 0)
			}
		}
		// ---- bounded-exhaustive: every stream over {fa,ff,00,01} up to length L x every partition ----
		small := []byte{0xfa, 0xff, 0x00, 0x01}
		L := c.pick(4, 6)
		var rec func(cur []byte)
		rec = func(cur []byte) {
			compositions(len(cur), func(parts []int) { c.emitScan(cur, parts, io.EOF, false) })
			if len(cur) == L {
				return
			}
			for _, a := range small {
				rec(append(append([]byte(nil), cur...), a))
			}
		}
		rec(nil)
		c.count("alphabet-exhaustive-partitions")
		// short complete frames x every partition of the first bytes
		for i := 0; i < c.pick(6, 30); i++ {
			f := c.smallFrame()
			s := append(append(c.noise(), f...), c.smallFrame()...)
			if len(s) > 11 {
				s = s[:11]
			}
			compositions(len(s), func(parts []int) { c.emitScan(s, parts, io.EOF, false) })
		}
		// ---- framed streams under many schedules ----
		for i := 0; i < c.pick(60, 500); i++ {
			s, _ := c.framedStream(6, i%3 != 0)
			for _, sch := range c.schedules(len(s), i%10 == 0) {
				c.emitScan(s, sch, c.final(), c.rng.Intn(2) == 0)
			}
			// cuts inside the two header bytes and inside the length field of the first frame
			for cut := 0; cut <= len(s) && cut <= 24; cut++ {
				c.emitScan(s, []int{cut}, io.EOF, false)
			}
		}
		// ---- arbitrary streams ----
		for i := 0; i < c.pick(80, 800); i++ {
			s := c.arbitraryStream(300)
			for _, sch := range c.schedules(len(s), false) {
				c.emitScan(s, sch, c.final(), c.rng.Intn(2) == 0)
			}
		}
		// ---- the 64 KiB limit: false header claiming 65535 bytes (K1 shape), one byte short of it, a big noise block ----
		big := func(claim, follow int) []byte {
			s := []byte{0xfa, 0xff, 0x10, 0xff, byte(claim >> 8), byte(claim)}
			for i := 0; i < follow; i++ {
				s = append(s, byte(i%251))
			}
			return s
		}
		c.emitScan(big(65535, 65536), []int{4096, 0, 60000}, &portError{code: 5}, false)
		c.emitScan(big(65535, 65529), nil, &portError{code: 5}, false)
		if c.thorough() {
			c.emitScan(big(65535, 65530), nil, &portError{code: 5}, true)
			c.emitScan(big(65529, 65530), []int{1, 2, 3, 70000}, io.EOF, false)
			c.emitScan(append(big(3000, 3001), xsens.NewMessage(0x30, nil)...), []int{1, 1, 1, 1, 1, 1, 1, 5000}, io.EOF, false)
		}
		c.clientStreams()
		c.twoClients()
		// commands too: what the client reports as its current message stays what the stream carried
		c.commandCases("client", c.pick(30, 300))
	}
}

// twoClients: two clients on their own ports, each stream arriving in one read, their receives interleaved; each client
// must deliver its own stream's frames (one case per client, judged independently)
func (c *ctx) twoClients() {
	for i := 0; i < c.pick(20, 200); i++ {
		sa, fa := c.framedStream(5, true)
		sb, fb := c.framedStream(5, true)
		pa := &scriptedPort{r: &chunkReader{data: append([]byte(nil), sa...), final: io.EOF}}
		pb := &scriptedPort{r: &chunkReader{data: append([]byte(nil), sb...), final: io.EOF}}
		ca, cb := xsens.NewClient(pa), xsens.NewClient(pb)
		na, nb := len(fa)+1, len(fb)+1
		var oa, ob []string
		for k := 0; k < na || k < nb; k++ {
			if k < na {
				var err error
				protect(func() { err = ca.Receive(context.Background()) })
				oa = append(oa, recvObs(ca, err))
				var b []byte
				protect(func() {
					b = append([]byte(nil), ca.RawMessage()...)
					if ca.RawMessage() == nil {
						b = nil
					}
				})
				oa = append(oa, optBytes(b))
			}
			if k < nb {
				var err error
				protect(func() { err = cb.Receive(context.Background()) })
				ob = append(ob, recvObs(cb, err))
				var b []byte
				protect(func() {
					b = append([]byte(nil), cb.RawMessage()...)
					if cb.RawMessage() == nil {
						b = nil
					}
				})
				ob = append(ob, optBytes(b))
			}
		}
		emit := func(stream []byte, n int, obs []string) {
			var ot []string
			for k := 0; k < n; k++ {
				ot = append(ot, "OReceive", "ORawMsg")
			}
			c.emit("client", tup(nlist(stream), ilist(nil), finalTerm(io.EOF), cbool(false), "[]",
				"["+strings.Join(ot, ";")+"]", "["+strings.Join(obs, ";")+"]"))
		}
		emit(sa, na, oa)
		emit(sb, nb, ob)
		c.count("two-clients-interleaved")
	}
}
