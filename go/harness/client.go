package main

import (
	"bytes"
	"context"
	"encoding/binary"
	"errors"
	"fmt"
	"io"
	"reflect"
	"strings"

	"go.einride.tech/xsens"
)

type scriptedPort struct {
	r      *chunkReader
	writes [][]byte
	wplan  []bool
}

func (p *scriptedPort) Read(b []byte) (int, error) { return p.r.Read(b) }
func (p *scriptedPort) Write(b []byte) (int, error) {
	ok := true
	if len(p.wplan) > 0 {
		ok = p.wplan[0]
		p.wplan = p.wplan[1:]
	}
	if !ok {
		return 0, &portError{code: 77}
	}
	p.writes = append(p.writes, append([]byte(nil), b...))
	return len(b), nil
}
func (p *scriptedPort) Close() error { return nil }

type cop struct {
	kind    string // receive scan rawmsg msgid dtype rawpkt meas cmd
	name    string
	payload []byte
	arg     interface{}
}

func (o cop) term() string {
	switch o.kind {
	case "receive":
		return "OReceive"
	case "scan":
		return "OScan"
	case "rawmsg":
		return "ORawMsg"
	case "msgid":
		return "OMsgId"
	case "dtype":
		return "ODataType"
	case "rawpkt":
		return "ORawPkt"
	case "meas":
		return "OMeas"
	case "cmd":
		return fmt.Sprintf("(OCmd \"%s\" %s)", o.name, nlist(o.payload))
	}
	panic("bad op")
}

func optBytes(b []byte) string {
	if b == nil {
		return "(BBytes None)"
	}
	return "(BBytes (Some " + nlist(b) + "))"
}

func hasCause(err error) bool {
	return errors.Unwrap(err) != nil && !strings.Contains(err.Error(), "%!w(<nil>)")
}

func recvObs(c *xsens.Client, err error) string {
	if err == nil {
		return "BRecvOk"
	}
	var raw []byte
	protect(func() { raw = c.RawMessage() })
	if raw != nil {
		return "(BRecvRej " + cbool(hasCause(err)) + ")"
	}
	return "(BRecvTerm " + termOf(err, nil) + ")"
}

var slotGetters = []struct {
	name string
	get  func(c *xsens.Client) interface{}
}{
	{"packetCounter", func(c *xsens.Client) interface{} { return c.PacketCounter() }},
	{"sampleTimeFine", func(c *xsens.Client) interface{} { return c.SampleTimeFine() }},
	{"utcTime", func(c *xsens.Client) interface{} { return c.UTCTime() }},
	{"statusByte", func(c *xsens.Client) interface{} { return c.StatusByte() }},
	{"statusWord", func(c *xsens.Client) interface{} { return c.StatusWord() }},
	{"eulerAngles", func(c *xsens.Client) interface{} { return c.EulerAngles() }},
	{"acceleration", func(c *xsens.Client) interface{} { return c.Acceleration() }},
	{"deltaV", func(c *xsens.Client) interface{} { return c.DeltaV() }},
	{"rateOfTurn", func(c *xsens.Client) interface{} { return c.RateOfTurn() }},
	{"deltaQ", func(c *xsens.Client) interface{} { return c.DeltaQ() }},
	{"latLon", func(c *xsens.Client) interface{} { return c.LatLon() }},
	{"altitudeEllipsoid", func(c *xsens.Client) interface{} { return c.AltitudeEllipsoid() }},
	{"velocityXYZ", func(c *xsens.Client) interface{} { return c.VelocityXYZ() }},
	{"gnssPVTData", func(c *xsens.Client) interface{} { return c.GNSSPVTData() }},
	{"sampleTimeCoarse", func(c *xsens.Client) interface{} { return c.SampleTimeCoarse() }},
	{"baroPressure", func(c *xsens.Client) interface{} { return c.BaroPressure() }},
	{"temperature", func(c *xsens.Client) interface{} { return c.Temperature() }},
	{"magneticField", func(c *xsens.Client) interface{} { return c.MagneticField() }},
	{"rotationMatrix", func(c *xsens.Client) interface{} { return c.RotationMatrix() }},
	{"freeAcceleration", func(c *xsens.Client) interface{} { return c.FreeAcceleration() }},
	{"quaternion", func(c *xsens.Client) interface{} { return c.Quaternion() }},
	{"gnssSatInfo", func(c *xsens.Client) interface{} { return c.GNSSSatInfo() }},
	{"positionECEF", func(c *xsens.Client) interface{} { return c.PositionECEF() }},
}

func valueBytes(v interface{}) []byte {
	var buf bytes.Buffer
	if err := binary.Write(&buf, binary.BigEndian, v); err != nil {
		return []byte("unencodable:" + err.Error())
	}
	return buf.Bytes()
}

// measObs identifies the slot MeasurementData() points to and compares its value with a fresh decoding.
func measObs(c *xsens.Client) string {
	var md xsens.MeasurementData
	if p, _ := protect(func() { md = c.MeasurementData() }); p {
		return "BPanic"
	}
	if md == nil || reflect.ValueOf(md).IsNil() {
		return "(BSlot None true)"
	}
	// the documented loop prints the value (README, cmd/xsens): a value whose formatting panics counts as a panic of the
	// read (fmt reports a panicking String method inside the text; a crash that cannot be recovered ends the harness)
	var text string
	if p, _ := protect(func() { text = fmt.Sprintf("%+v", md) }); p || strings.Contains(text, "(PANIC=") {
		return "BPanic"
	}
	name := "unexported-" + reflect.TypeOf(md).Elem().Name()
	for _, g := range slotGetters {
		if reflect.ValueOf(g.get(c)).Pointer() == reflect.ValueOf(md).Pointer() {
			name = g.name
		}
	}
	fresh := reflect.New(reflect.TypeOf(md).Elem()).Interface().(xsens.MeasurementData)
	same := false
	protect(func() {
		raw := c.RawPacket()
		if err := fresh.UnmarshalMTData2Packet(xsens.MTData2Packet(append([]byte(nil), raw...))); err == nil {
			same = bytes.Equal(valueBytes(fresh), valueBytes(md))
		}
	})
	return fmt.Sprintf("(BSlot (Some \"%s\") %s)", name, cbool(same))
}

func callCmd(c *xsens.Client, o cop) error {
	ctx := context.Background()
	switch o.name {
	case "GoToConfig":
		return c.GoToConfig(ctx)
	case "GoToMeasurement":
		return c.GoToMeasurement(ctx)
	case "SetOutputConfiguration":
		return c.SetOutputConfiguration(ctx, o.arg.(xsens.OutputConfiguration))
	case "GetOutputConfiguration":
		_, err := c.GetOutputConfiguration(ctx)
		return err
	case "SetCANOutputConfiguration":
		return c.SetCANOutputConfiguration(ctx, o.arg.(xsens.CANOutputConfiguration))
	case "GetCANOutputConfiguration":
		_, err := c.GetCANOutputConfiguration(ctx)
		return err
	case "SetCANConfiguration":
		return c.SetCANConfiguration(ctx, o.arg.(xsens.CANConfig))
	case "GetCANConfiguration":
		_, err := c.GetCANConfiguration(ctx)
		return err
	case "GetDeviceID":
		_, err := c.GetDeviceID(ctx)
		return err
	case "GetProductCode":
		_, err := c.GetProductCode(ctx)
		return err
	case "GetHWVersion":
		_, err := c.GetHWVersion(ctx)
		return err
	}
	panic("unknown command " + o.name)
}

// runClient executes the operations against a real client over a scripted port.
func runClient(stream []byte, sched []int, final error, ewd bool, wplan []bool, ops []cop) []string {
	port := &scriptedPort{
		r:     &chunkReader{data: append([]byte(nil), stream...), sched: append([]int(nil), sched...), final: final, ewd: ewd},
		wplan: append([]bool(nil), wplan...),
	}
	c := xsens.NewClient(port)
	var out []string
	for _, o := range ops {
		var ob string
		switch o.kind {
		case "receive":
			var err error
			if p, _ := protect(func() { err = c.Receive(context.Background()) }); p {
				ob = "BPanic"
			} else {
				ob = recvObs(c, err)
			}
		case "scan":
			var b bool
			if p, _ := protect(func() { b = c.ScanMeasurementData() }); p {
				ob = "BPanic"
			} else {
				ob = "(BBool " + cbool(b) + ")"
			}
		case "rawmsg":
			var b []byte
			if p, _ := protect(func() {
				b = append([]byte(nil), c.RawMessage()...)
				if c.RawMessage() == nil {
					b = nil
				}
			}); p {
				ob = "BPanic"
			} else {
				ob = optBytes(b)
			}
		case "msgid":
			var v int
			if p, _ := protect(func() { v = int(c.MessageIdentifier()) }); p {
				ob = "BPanic"
			} else {
				ob = fmt.Sprintf("(BNum %d%%Z)", v)
			}
		case "dtype":
			var v int
			if p, _ := protect(func() { v = int(c.DataType()) }); p {
				ob = "BPanic"
			} else {
				ob = fmt.Sprintf("(BNum %d%%Z)", v)
			}
		case "rawpkt":
			var b []byte
			if p, _ := protect(func() {
				r := c.RawPacket()
				if r != nil {
					b = append([]byte{}, r...)
				}
			}); p {
				ob = "BPanic"
			} else {
				ob = optBytes(b)
			}
		case "meas":
			ob = measObs(c)
		case "cmd":
			w0, r0 := len(port.writes), port.r.reads
			var err error
			if p, _ := protect(func() { err = callCmd(c, o) }); p {
				ob = "BPanic"
			} else {
				res := "(BBool true)"
				if err != nil {
					var pe *portError
					if errors.As(err, &pe) && pe.code == 77 {
						res = "(BBool false)"
					} else {
						res = recvObs(c, err)
					}
				}
				ob = fmt.Sprintf("(BCmd %s %s %d)", res, nlists(port.writes[w0:]), port.r.reads-r0)
			}
		}
		out = append(out, ob)
	}
	return out
}

func (c *ctx) emitClient(kind string, stream []byte, sched []int, final error, ewd bool, wplan []bool, ops []cop) {
	obs := runClient(stream, sched, final, ewd, wplan, ops)
	var ot []string
	for _, o := range ops {
		ot = append(ot, o.term())
	}
	wp := "["
	for i, b := range wplan {
		if i > 0 {
			wp += ";"
		}
		wp += cbool(b)
	}
	wp += "]"
	c.emit(kind, tup(nlist(stream), ilist(sched), finalTerm(final), cbool(ewd), wp,
		"["+strings.Join(ot, ";")+"]", "["+strings.Join(obs, ";")+"]"))
	for _, o := range obs {
		c.count("obs-" + strings.Fields(strings.Trim(o, "()"))[0])
	}
}

// ---- measurement payload generation ----

var supportedTypes []xsens.DataType

func init() {
	for t := 0; t < 65536; t++ {
		if t&0xf8f0 != t {
			continue
		}
		if (xsens.DataIdentifier{DataType: xsens.DataType(t)}).DataSize() != 0 {
			supportedTypes = append(supportedTypes, xsens.DataType(t))
		}
	}
}

// packet returns a measurement packet; mode 0 = well-sized supported, 1 = truncated data, 2 = unknown type,
// 3 = oversized data
func (c *ctx) packet(mode int) []byte {
	id := xsens.DataIdentifier{
		DataType:         supportedTypes[c.rng.Intn(len(supportedTypes))],
		CoordinateSystem: xsens.CoordinateSystem(4 * c.rng.Intn(4)),
		Precision:        xsens.Precision(c.rng.Intn(4)),
	}
	if mode == 2 {
		id.DataType = xsens.DataType(c.rng.Intn(65536) & 0xf8f0)
	}
	n := int(id.DataSize())
	switch mode {
	case 1:
		if n > 0 {
			n = c.rng.Intn(n)
		}
	case 2:
		n = c.rng.Intn(12)
	case 3:
		n += 1 + c.rng.Intn(4)
	}
	if n > 255 {
		n = 255
	}
	w := id.Uint16()
	if c.rng.Intn(4) == 0 {
		w |= uint16(c.rng.Intn(8)) << 8 // reserved bits
	}
	p := []byte{byte(w >> 8), byte(w), byte(n)}
	data := c.payload(n)
	// fixed-point data: integer words at the ends of the range (sign word 0x80.., 0x7f.., 0xff..)
	if mode == 0 && c.rng.Intn(3) == 0 {
		switch id.Precision {
		case xsens.PrecisionFP1632:
			for g := 0; 6*g+5 < len(data); g++ {
				data[6*g+4] = []byte{0x80, 0x80, 0x7f, 0xff, 0x00, 0x81}[c.rng.Intn(6)]
			}
		case xsens.PrecisionFP1220:
			for g := 0; 4*g+3 < len(data); g++ {
				data[4*g] = []byte{0x80, 0x7f, 0xff, 0x00}[c.rng.Intn(4)]
			}
		}
	}
	return append(p, data...)
}

func (c *ctx) measurementPayload(maxPackets int, clean bool) []byte {
	var m []byte
	k := c.rng.Intn(maxPackets + 1)
	for i := 0; i < k; i++ {
		mode := 0
		if !clean {
			mode = []int{0, 0, 0, 0, 1, 2, 3}[c.rng.Intn(7)]
		}
		m = append(m, c.packet(mode)...)
	}
	if !clean && c.rng.Intn(4) == 0 && len(m) > 0 {
		m = m[:c.rng.Intn(len(m))] // truncated payload
	}
	if len(m) > 2048 {
		m = m[:2048]
	}
	return m
}

func (c *ctx) clientMessage() []byte {
	switch c.rng.Intn(6) {
	case 0:
		return []byte(xsens.NewMessage(xsens.MessageIdentifier(c.rng.Intn(256)), c.payload(c.rng.Intn(12))))
	case 1:
		return c.mutate(xsens.NewMessage(xsens.MessageIdentifierMTData2, c.measurementPayload(4, false)))
	case 2:
		return []byte(xsens.NewMessage(xsens.MessageIdentifierMTData2, c.measurementPayload(40, true)))
	default:
		return []byte(xsens.NewMessage(xsens.MessageIdentifierMTData2, c.measurementPayload(6, false)))
	}
}

// documentedLoop builds the receive/scan loop with accessor calls; partial scanning with probability p.
func (c *ctx) documentedLoop(nrecv int, partial bool) []cop {
	var ops []cop
	for i := 0; i < nrecv; i++ {
		ops = append(ops, cop{kind: "receive"}, cop{kind: "rawmsg"})
		// the protocol allows frame accessors only after a delivered frame; the harness cannot know
		// in advance, so these sequences are produced by a first pass (see clientSequences)
	}
	return ops
}

// adaptive: run the loop the way the documentation describes it, deciding the next call from what the
// client returned; returns the operation list (then replayed on a fresh client for the record).
func (c *ctx) adaptiveOps(stream []byte, sched []int, final error, ewd bool, maxRecv int, partial bool, extra bool) []cop {
	port := &scriptedPort{r: &chunkReader{data: append([]byte(nil), stream...), sched: append([]int(nil), sched...), final: final, ewd: ewd}}
	cl := xsens.NewClient(port)
	var ops []cop
	terminal := 0
	for i := 0; i < maxRecv && terminal < 3; i++ {
		ops = append(ops, cop{kind: "receive"})
		var err error
		if p, _ := protect(func() { err = cl.Receive(context.Background()) }); p {
			return ops
		}
		var raw []byte
		protect(func() { raw = cl.RawMessage() })
		ops = append(ops, cop{kind: "rawmsg"})
		if raw == nil {
			terminal++
			continue
		}
		ops = append(ops, cop{kind: "msgid"})
		if err != nil && !extra {
			continue
		}
		// scan loop (also after a rejected frame when extra: the client must report nothing)
		steps := 0
		for {
			ops = append(ops, cop{kind: "scan"})
			var b bool
			if p, _ := protect(func() { b = cl.ScanMeasurementData() }); p {
				return ops
			}
			if !b {
				if extra && steps < 60 && c.rng.Intn(3) == 0 {
					steps++
					continue // keep scanning after a false (unknown type / short packet): later packets follow
				}
				break
			}
			ops = append(ops, cop{kind: "dtype"}, cop{kind: "rawpkt"}, cop{kind: "meas"})
			steps++
			if partial && c.rng.Intn(3) == 0 {
				break // leave the message half scanned
			}
			if steps > 800 {
				break
			}
		}
	}
	return ops
}

func (c *ctx) clientStreamCase(kind string, nmsgs int, rich bool) {
	var stream []byte
	for i := 0; i < nmsgs; i++ {
		if c.rng.Intn(5) == 0 {
			stream = append(stream, c.noise()...)
		}
		stream = append(stream, c.clientMessage()...)
	}
	scheds := c.schedules(len(stream), false)
	sch := scheds[c.rng.Intn(len(scheds))]
	if len(stream) > 3000 {
		sch = nil
	}
	fin := c.final()
	ewd := c.rng.Intn(3) == 0
	ops := c.adaptiveOps(stream, sch, fin, ewd, nmsgs+4, c.rng.Intn(2) == 0, rich)
	c.emitClient(kind, stream, sch, fin, ewd, nil, ops)
}

func (c *ctx) clientStreams() {
	for i := 0; i < c.pick(60, 600); i++ {
		c.clientStreamCase("client", 1+c.rng.Intn(5), i%2 == 0)
	}
	c.clientBigFrames("client")
}

// clientBigFrames: the largest frames a device may send (2046..2048 data bytes; 2055 bytes on the wire), as plain and
// as measurement messages, between small frames, under several read fragmentations: the client's scanner must hold them
func (c *ctx) clientBigFrames(kind string) {
	for _, n := range []int{2046, 2047, 2048} {
		plain := []byte(xsens.NewMessage(xsens.MessageIdentifier(0x10), c.payload(n)))
		// a measurement payload of exactly n bytes: 4-byte packets (packet counter with 1 data byte ... kept simple: status bytes)
		var pl []byte
		for len(pl)+4 <= n {
			pl = append(pl, 0xe0, 0x10, 0x01, byte(len(pl)))
		}
		for len(pl) < n {
			pl = append(pl, 0)
		}
		meas := []byte(xsens.NewMessage(xsens.MessageIdentifierMTData2, pl))
		for _, big := range [][]byte{plain, meas} {
			s := append([]byte(xsens.NewMessage(0x31, nil)), big...)
			s = append(s, xsens.NewMessage(0x30, nil)...)
			for _, sch := range [][]int{nil, {700, 700, 700, 700}, {4096, 4096}, {1, 2053, 1, 1, 7}} {
				ops := []cop{{kind: "receive"}, {kind: "receive"}, {kind: "rawmsg"}, {kind: "msgid"}, {kind: "scan"}, {kind: "rawpkt"}, {kind: "receive"}, {kind: "msgid"}, {kind: "receive"}}
				c.emitClient(kind, s, sch, io.EOF, false, nil, ops)
			}
		}
	}
}

// streams containing corrupted frames, through the client (C02 client clause)
func (c *ctx) clientCorruptStreams() {
	for i := 0; i < c.pick(80, 800); i++ {
		var stream []byte
		k := 2 + c.rng.Intn(4)
		for j := 0; j < k; j++ {
			f := []byte(xsens.NewMessage(xsens.MessageIdentifierMTData2, c.measurementPayload(5, true)))
			if c.rng.Intn(2) == 0 && len(f) > 0 {
				pos := c.rng.Intn(len(f))
				if c.rng.Intn(2) == 0 && len(f) > 5 {
					pos = 4 + c.rng.Intn(len(f)-4) // keep the header: a corrupted measurement frame
				}
				f[pos] += byte(1 + c.rng.Intn(255))
			}
			stream = append(stream, f...)
		}
		scheds := c.schedules(len(stream), false)
		sch := scheds[c.rng.Intn(len(scheds))]
		ops := c.adaptiveOps(stream, sch, io.EOF, false, k+6, c.rng.Intn(2) == 0, true)
		c.emitClient("client", stream, sch, io.EOF, false, nil, ops)
	}
}
