package main

import (
	"bytes"
	"context"
	"fmt"
	"io"
	"math"
	"reflect"
	"strings"

	"go.einride.tech/xsens"
	"go.einride.tech/xsens/xsensemulator"
)

const canonNaN64 = 0x7ff8000000000000

// float64 values cross to the model as their raw bit patterns (NaN payloads of float32 inputs are skipped by
// the evaluator: the property excepts them)
func f64bits(f float64) uint64 { return math.Float64bits(f) }

// flatten renders a decoded value as integers: numbers for integer fields, float64 bit patterns for reals.
func flatten(v reflect.Value, out *[]string) {
	switch v.Kind() {
	case reflect.Ptr:
		flatten(v.Elem(), out)
	case reflect.Struct:
		for i := 0; i < v.NumField(); i++ {
			flatten(v.Field(i), out)
		}
	case reflect.Float64, reflect.Float32:
		*out = append(*out, us(f64bits(v.Float())))
	case reflect.Uint8, reflect.Uint16, reflect.Uint32, reflect.Uint64, reflect.Uint:
		*out = append(*out, us(v.Uint()))
	case reflect.Int8, reflect.Int16, reflect.Int32, reflect.Int64, reflect.Int:
		*out = append(*out, zs(v.Int()))
	default:
		*out = append(*out, "0")
	}
}

func valueTerm(md xsens.MeasurementData) string {
	var parts []string
	flatten(reflect.ValueOf(md), &parts)
	return "[" + strings.Join(parts, ";") + "]%Z"
}

// valueOfType returns a fresh zero value of the Go type the client dispatches the identifier to.
func valueOfType(id xsens.DataIdentifier) xsens.MeasurementData {
	w := id.Uint16()
	pkt := []byte{byte(w >> 8), byte(w), 0}
	cl := xsens.NewClient(&scriptedPort{r: &chunkReader{data: []byte(xsens.NewMessage(xsens.MessageIdentifierMTData2, pkt)), final: io.EOF}})
	var md xsens.MeasurementData
	protect(func() {
		if cl.Receive(context.Background()) != nil {
			return
		}
		cl.ScanMeasurementData()
		md = cl.MeasurementData()
	})
	if md == nil || reflect.ValueOf(md).IsNil() {
		return nil
	}
	return reflect.New(reflect.TypeOf(md).Elem()).Interface().(xsens.MeasurementData)
}

func (c *ctx) dataPattern(n int, mode int) []byte {
	b := make([]byte, n)
	switch mode {
	case 0: // all zero
	case 1:
		for i := range b {
			b[i] = 0xff
		}
	case 2: // distinct bytes so that any misplaced byte shows
		for i := range b {
			b[i] = byte(i + 1)
		}
	case 3: // sign boundaries in every 2-byte lane
		for i := range b {
			b[i] = []byte{0x80, 0x00, 0x7f, 0xff}[i%4]
		}
	case 6: // the largest 12.20 value in every 4-byte lane
		for i := range b {
			b[i] = []byte{0x7f, 0xff, 0xff, 0xff}[i%4]
		}
	case 7: // the largest 16.32 value in every 6-byte lane (fraction word first)
		for i := range b {
			b[i] = []byte{0xff, 0xff, 0xff, 0xff, 0x7f, 0xff}[i%6]
		}
	case 8: // the smallest values: 80 00 00 00 lanes / 00 00 00 00 80 00 lanes, alternating by length
		for i := range b {
			if n%6 == 0 && n%4 != 0 {
				b[i] = []byte{0, 0, 0, 0, 0x80, 0}[i%6]
			} else {
				b[i] = []byte{0x80, 0, 0, 0}[i%4]
			}
		}
	case 4: // plausible reals: small magnitudes
		for i := range b {
			b[i] = byte(c.rng.Intn(256))
		}
		for i := 0; i+3 < n; i += 4 {
			b[i] = []byte{0x3f, 0xbf, 0x40, 0xc0, 0x00, 0xff}[c.rng.Intn(6)]
		}
	default:
		for i := range b {
			b[i] = byte(c.rng.Intn(256))
		}
	}
	return b
}

func (c *ctx) codecCase(id xsens.DataIdentifier, wire uint16, data []byte) {
	md := valueOfType(id)
	if md == nil {
		return
	}
	ty := reflect.TypeOf(md).Elem().Name()
	pkt := append([]byte{byte(wire >> 8), byte(wire), byte(len(data))}, data...)
	// pre-fill the destination by decoding something else first, to see whether an error leaves it alone
	pre := valueOfType(id)
	full := int(id.DataSize())
	if full > 0 {
		p0 := append([]byte{byte(wire >> 8), byte(wire), byte(full)}, c.dataPattern(full, 2)...)
		protect(func() { _ = pre.UnmarshalMTData2Packet(xsens.MTData2Packet(p0)) })
	}
	before := valueTerm(pre)
	dec, reenc := "RPan", "RPan"
	unchanged := true
	protect(func() {
		err := pre.UnmarshalMTData2Packet(xsens.MTData2Packet(exact(pkt)))
		if err != nil {
			dec, reenc = "RErr", "RErr"
			unchanged = valueTerm(pre) == before
			return
		}
		dec = "(ROk " + valueTerm(pre) + ")"
		// re-encode under the identifier the packet itself carries (as decoded from its header)
		p, err := pre.MarshalMTData2Packet(xsens.MTData2Packet(exact(pkt)).Identifier())
		if err != nil {
			reenc = "RErr"
			return
		}
		reenc = "(ROk " + nlist(p) + ")"
	})
	_ = md
	c.emit("codec", tup("\""+ty+"\"", zs(int64(wire))+"%Z", nlist(data), dec, reenc, cbool(unchanged)))
	// the same value encoded by an emulator configured with the packet's identifier (a duplicate of the case above
	// unless the emulator changes something)
	if strings.HasPrefix(dec, "(ROk") && strings.HasPrefix(reenc, "(ROk") {
		viaEmu := "RPan"
		protect(func() {
			hid := xsens.MTData2Packet(exact(pkt)).Identifier()
			emu := xsensemulator.NewEmulator(nil)
			emu.SetOutputConguration(xsens.OutputConfiguration{{DataIdentifier: hid, OutputFrequency: 100}})
			p, err := emu.MarshalMessage(pre, hid.DataType)
			if err != nil {
				viaEmu = "RErr"
				return
			}
			viaEmu = "(ROk " + nlist(p) + ")"
			// every 8th case: the configuration arrives as a command, after a longer one that had the same data type in
			// another format further back (the newest configuration alone counts)
			if c.emuReconf%8 == 0 {
				other := hid
				other.Precision = (hid.Precision + 1) % 4
				other.CoordinateSystem = (hid.CoordinateSystem + 4) % 12
				first := xsens.OutputConfiguration{{DataIdentifier: xsens.DataIdentifier{DataType: xsens.DataTypePacketCounter}, OutputFrequency: 100},
					{DataIdentifier: other, OutputFrequency: 100}}
				q, err := emuMarshalAfter([]xsens.OutputConfiguration{first, {{DataIdentifier: hid, OutputFrequency: 100}}}, pre, hid.DataType)
				if err != nil {
					viaEmu = "RErr"
				} else if !bytes.Equal(q, p) {
					viaEmu = "(ROk " + nlist(q) + ")"
				}
			}
			c.emuReconf++
		})
		c.emit("codec", tup("\""+ty+"\"", zs(int64(wire))+"%Z", nlist(data), dec, viaEmu, cbool(unchanged)))
		c.count("encoded-through-emulator")
	}
}

// codecTrunc: a packet whose length byte announces the full size but whose slice ends earlier (a packet cut off by
// the end of a payload), with no spare capacity and with spare capacity behind it: the decoder must refuse it and
// leave the destination alone, whatever lies behind the slice
func (c *ctx) codecTrunc(id xsens.DataIdentifier, wire uint16, data []byte, full int) {
	if valueOfType(id) == nil {
		return
	}
	for _, extra := range []int{0, 16} {
		pre := valueOfType(id)
		ty := reflect.TypeOf(pre).Elem().Name()
		p0 := append([]byte{byte(wire >> 8), byte(wire), byte(full)}, c.dataPattern(full, 2)...)
		protect(func() { _ = pre.UnmarshalMTData2Packet(xsens.MTData2Packet(p0)) })
		before := valueTerm(pre)
		pkt := append([]byte{byte(wire >> 8), byte(wire), byte(full)}, data...)
		var buf []byte
		if extra == 0 {
			buf = exact(pkt)
		} else {
			buf = roomy(pkt, extra)
		}
		dec, reenc := "RPan", "RPan"
		unchanged := true
		protect(func() {
			if err := pre.UnmarshalMTData2Packet(xsens.MTData2Packet(buf)); err != nil {
				dec, reenc = "RErr", "RErr"
				unchanged = valueTerm(pre) == before
				return
			}
			dec, reenc = "(ROk "+valueTerm(pre)+")", "RErr"
		})
		c.emit("codec", tup("\""+ty+"\"", zs(int64(wire))+"%Z", nlist(data), dec, reenc, cbool(unchanged)))
		c.count("cut-off-packets")
	}
}

// codecViaClient: packets (fixed-point data biased to the ends of the range) decoded by a client; the value the client
// hands out is compared with the reference decoding of the packet's bytes, and re-encoded under the packet's identifier
func (c *ctx) codecViaClient(count int) {
	for i := 0; i < count; i++ {
		pkt := c.packet(0)
		if c.rng.Intn(4) == 0 {
			pkt[1] = pkt[1]&^3 | 2 // FP16.32 more often
			var id xsens.DataIdentifier
			id.SetUint16(uint16(pkt[0])<<8 | uint16(pkt[1]))
			n := int(id.DataSize())
			pkt = append(pkt[:2:2], byte(n))
			d := c.payload(n)
			for g := 0; 6*g+5 < n; g++ {
				d[6*g+4] = []byte{0x80, 0x80, 0x7f, 0xff, 0x81}[c.rng.Intn(5)]
			}
			if c.rng.Intn(4) == 0 {
				d = c.dataPattern(n, 7)
			}
			pkt = append(pkt, d...)
		} else if c.rng.Intn(8) == 0 && pkt[1]&3 == 1 {
			copy(pkt[3:], c.dataPattern(len(pkt)-3, 6)) // 12.20 maxima
		}
		cl := xsens.NewClient(&scriptedPort{r: &chunkReader{data: xsens.NewMessage(xsens.MessageIdentifierMTData2, pkt), final: io.EOF}})
		var md xsens.MeasurementData
		protect(func() {
			if cl.Receive(context.Background()) == nil && cl.ScanMeasurementData() {
				md = cl.MeasurementData()
			}
		})
		if md == nil || reflect.ValueOf(md).IsNil() {
			continue
		}
		wire := uint16(pkt[0])<<8 | uint16(pkt[1])
		dec, reenc := "(ROk "+valueTerm(md)+")", "RPan"
		protect(func() {
			p, err := md.MarshalMTData2Packet(xsens.MTData2Packet(pkt).Identifier())
			if err != nil {
				reenc = "RErr"
				return
			}
			reenc = "(ROk " + nlist(p) + ")"
		})
		c.emit("codec", tup("\""+reflect.TypeOf(md).Elem().Name()+"\"", zs(int64(wire))+"%Z", nlist(pkt[3:]), dec, reenc, "true"))
		c.count("decoded-by-client")
	}
}

// codecPairs: two packets of different data types in one message, through a client; the value handed out for the first
// packet is read after the second has been scanned (every data type has a record of its own)
func (c *ctx) codecPairs() {
	for _, ta := range supportedTypes {
		for _, tb := range supportedTypes {
			if ta == tb {
				continue
			}
			ida := xsens.DataIdentifier{DataType: ta, CoordinateSystem: xsens.CoordinateSystem(4 * c.rng.Intn(3)), Precision: xsens.Precision(c.rng.Intn(4))}
			idb := xsens.DataIdentifier{DataType: tb, CoordinateSystem: xsens.CoordinateSystem(4 * c.rng.Intn(3)), Precision: xsens.Precision(c.rng.Intn(4))}
			da := c.dataPattern(int(ida.DataSize()), 5)
			db := c.dataPattern(int(idb.DataSize()), 2)
			wa, wb := ida.Uint16(), idb.Uint16()
			pa := append([]byte{byte(wa >> 8), byte(wa), byte(len(da))}, da...)
			pb := append([]byte{byte(wb >> 8), byte(wb), byte(len(db))}, db...)
			port := &scriptedPort{r: &chunkReader{data: xsens.NewMessage(xsens.MessageIdentifierMTData2, append(append([]byte{}, pa...), pb...)), final: io.EOF}}
			cl := xsens.NewClient(port)
			var first xsens.MeasurementData
			n := 0
			protect(func() {
				if cl.Receive(context.Background()) != nil {
					return
				}
				for steps := 0; steps < 4096 && cl.ScanMeasurementData(); steps++ {
					if n == 0 {
						first = cl.MeasurementData()
					}
					n++
				}
			})
			if first == nil || n != 2 {
				continue
			}
			dec, reenc := "(ROk "+valueTerm(first)+")", "RPan"
			protect(func() {
				p, err := first.MarshalMTData2Packet(xsens.MTData2Packet(pa).Identifier())
				if err != nil {
					reenc = "RErr"
					return
				}
				reenc = "(ROk " + nlist(p) + ")"
			})
			c.emit("codec", tup("\""+reflect.TypeOf(first).Elem().Name()+"\"", zs(int64(wa))+"%Z", nlist(da), dec, reenc, "true"))
			c.count("pairs-through-client")
		}
	}
}

func init() {
	props["C04"] = func(c *ctx) {
		c.codecPairs()
		for _, t := range supportedTypes {
			for prec := 0; prec < 4; prec++ {
				for coord := 0; coord < 16; coord += 4 {
					id := xsens.DataIdentifier{DataType: t, CoordinateSystem: xsens.CoordinateSystem(coord), Precision: xsens.Precision(prec)}
					wire := id.Uint16()
					n := int(id.DataSize())
					modes := []int{0, 1, 2, 3, 4, 5, 6, 7, 8}
					if coord != 0 && !c.thorough() {
						modes = []int{2, 5}
					}
					for _, m := range modes {
						c.codecCase(id, wire, c.dataPattern(n, m))
					}
					// shorter lengths: every one for small sizes, sampled for the 94-byte record; and longer data
					for l := 0; l < n; l++ {
						if n > 24 && l%7 != 0 && l != n-1 && !c.thorough() {
							continue
						}
						if coord != 0 && l != n-1 {
							continue
						}
						c.codecCase(id, wire, c.dataPattern(l, 2))
					}
					if coord == 0 {
						c.codecCase(id, wire, c.dataPattern(n+3, 2))
						if n > 0 {
							c.codecTrunc(id, wire, c.dataPattern(n-1, 5), n)
							c.codecTrunc(id, wire, c.dataPattern(n/2, 5), n)
						}
					}
					// reserved identifier bits set on the wire
					if coord == 0 {
						c.codecCase(id, wire|0x0300, c.dataPattern(n, 5))
					}
				}
			}
		}
		// encoding arbitrary values (not only those a decoder produced): reals of every magnitude
		reals := []float64{0, math.Copysign(0, -1), 1, -1, 0.5, 1.0 / 3, -2047.9999995, 2047.999999, 32767.99999999, -32768,
			1e-7, 1e-30, 5e-324, 3.4028234663852886e38, 1.7e308, math.Inf(1), math.Inf(-1), math.NaN(), 16777217, 0.1}
		for _, t := range supportedTypes {
			for prec := 0; prec < 4; prec++ {
				id := xsens.DataIdentifier{DataType: t, Precision: xsens.Precision(prec)}
				md := valueOfType(id)
				if md == nil {
					continue
				}
				ty := reflect.TypeOf(md).Elem().Name()
				for k := 0; k < c.pick(6, 40); k++ {
					// fill every field
					v := reflect.ValueOf(md).Elem()
					var fill func(v reflect.Value)
					fill = func(v reflect.Value) {
						switch v.Kind() {
						case reflect.Struct:
							for i := 0; i < v.NumField(); i++ {
								fill(v.Field(i))
							}
						case reflect.Float64:
							f := reals[c.rng.Intn(len(reals))]
							if c.rng.Intn(2) == 0 {
								f = (c.rng.Float64() - 0.5) * math.Pow(2, float64(c.rng.Intn(24)-8))
							}
							// fixed point: keep the scaled value inside the int64 range (outside: implementation-defined)
							if prec == 1 || prec == 2 {
								if f != f || math.Abs(f) >= 2e9 {
									f = 1234.5
								}
							}
							v.SetFloat(f)
						case reflect.Uint8, reflect.Uint16, reflect.Uint32:
							v.SetUint(uint64(c.rng.Uint32()) & (1<<(8*uint(v.Type().Size())) - 1))
						case reflect.Int32:
							v.SetInt(int64(int32(c.rng.Uint32())))
						}
					}
					fill(v)
					r := "RPan"
					protect(func() {
						p, err := md.MarshalMTData2Packet(id)
						if err != nil {
							r = "RErr"
						} else {
							r = "(ROk " + nlist(p) + ")"
						}
					})
					c.emit("enc", tup("\""+ty+"\"", zs(int64(id.Uint16()))+"%Z", valueTerm(md), r))
				}
			}
		}
	}

	c05types := func(c *ctx) {
		// the fixed-point conversions as the measurement types use them: decode of boundary patterns, encode of
		// boundary values, for a scalar, a pair, a vector, a quaternion and a matrix type
		types := []xsens.DataType{xsens.DataTypeTemperature, xsens.DataTypeAltitudeEllipsoid, xsens.DataTypeLatLon,
			xsens.DataTypeAcceleration, xsens.DataTypeQuaternion, xsens.DataTypeRotationMatrix}
		edges := [][]byte{{0x80, 0, 0, 0}, {0x80, 0, 0, 1}, {0x7f, 0xff, 0xff, 0xff}, {0xff, 0xff, 0xff, 0xff}, {0, 0, 0, 0}, {0x80, 0xff, 0xff, 0xff}, {0x81, 0, 0, 0}}
		edges6 := [][]byte{{0, 0, 0, 0, 0x80, 0}, {0, 0, 0, 1, 0x80, 0}, {0xff, 0xff, 0xff, 0xff, 0x80, 0xff}, {0xff, 0xff, 0xff, 0xff, 0x7f, 0xff},
			{0xff, 0xff, 0xff, 0xff, 0xff, 0xff}, {0, 0, 0, 0, 0x81, 0}, {0x12, 0x34, 0x56, 0x78, 0x80, 0x44}, {0, 0, 0, 0, 0, 0}}
		for _, t := range types {
			for prec := 1; prec <= 2; prec++ {
				id := xsens.DataIdentifier{DataType: t, Precision: xsens.Precision(prec)}
				n := int(id.DataSize())
				w := 4
				set := edges
				if prec == 2 {
					w, set = 6, edges6
				}
				for k := 0; k < len(set); k++ {
					data := make([]byte, 0, n)
					for len(data) < n {
						data = append(data, set[(k+len(data)/w)%len(set)]...)
					}
					c.codecCase(id, id.Uint16(), data[:n])
				}
				// a fixed-point field that is cut off is refused (the value is its integer / 2^k, or no value)
				c.codecTrunc(id, id.Uint16(), c.dataPattern(n-1, 5), n)
				c.codecTrunc(id, id.Uint16(), c.dataPattern(n-w, 5), n)
				c.codecTrunc(id, id.Uint16(), c.dataPattern(w/2, 5), n)
			}
		}
		// and every other real-valued type
		for _, t := range supportedTypes {
			for prec := 1; prec <= 2; prec++ {
				id := xsens.DataIdentifier{DataType: t, Precision: xsens.Precision(prec)}
				if n := int(id.DataSize()); n > 0 && n%(2+2*prec) == 0 {
					c.codecTrunc(id, id.Uint16(), c.dataPattern(n-1, 5), n)
				}
			}
		}
		top12, top16 := math.Nextafter(2048, 0), math.Nextafter(32768, 0)
		vals := []float64{top12, 2048 - math.Pow(2, -21), 2048 - math.Pow(2, -20), 2047.9999995, -2048, -2047.9999999, 2047, 0.5, -0.5,
			top16, 32768 - math.Pow(2, -33), 32768 - math.Pow(2, -32), 32767.5, -32768, -32767.75, 1000.5, -300.25, 256, -256.5}
		for _, t := range types {
			for prec := 1; prec <= 2; prec++ {
				id := xsens.DataIdentifier{DataType: t, Precision: xsens.Precision(prec)}
				md := valueOfType(id)
				if md == nil {
					continue
				}
				ty := reflect.TypeOf(md).Elem().Name()
				for k := 0; k < len(vals); k++ {
					idx := 0
					var set func(v reflect.Value)
					set = func(v reflect.Value) {
						switch v.Kind() {
						case reflect.Struct:
							for i := 0; i < v.NumField(); i++ {
								set(v.Field(i))
							}
						case reflect.Float64:
							f := vals[(k+idx)%len(vals)]
							if prec == 1 && math.Abs(f) >= 2048 && f != -2048 {
								f = vals[(k+idx)%9]
							}
							v.SetFloat(f)
							idx++
						}
					}
					set(reflect.ValueOf(md).Elem())
					r := "RPan"
					protect(func() {
						p, err := md.MarshalMTData2Packet(id)
						if err != nil {
							r = "RErr"
						} else {
							r = "(ROk " + nlist(p) + ")"
						}
					})
					c.emit("enc", tup("\""+ty+"\"", zs(int64(id.Uint16()))+"%Z", valueTerm(md), r))
				}
			}
		}
	}
	defer func() {
		fp := props["C05"]
		props["C05"] = func(c *ctx) { fp(c); c05types(c) }
	}()
	props["C05"] = func(c *ctx) {
		fp12 := func(b [4]byte) {
			fp := xsens.FP1220(b)
			f := fp.Float64()
			var back xsens.FP1220
			back.FromFloat64(f)
			c.emit("fp", tup("4%Z", nlist(b[:]), us(f64bits(f))+"%Z", nlist(back[:])))
		}
		fp16 := func(b [6]byte) {
			fp := xsens.FP1632(b)
			f := fp.Float64()
			var back xsens.FP1632
			back.FromFloat64(f)
			c.emit("fp", tup("6%Z", nlist(b[:]), us(f64bits(f))+"%Z", nlist(back[:])))
		}
		// boundary-biased patterns: sign bit, each byte lane isolated, extremes
		edge := []byte{0x00, 0x01, 0x7f, 0x80, 0x81, 0xfe, 0xff}
		for _, a := range edge {
			for _, b := range edge {
				fp12([4]byte{a, b, 0, 0})
				fp12([4]byte{a, 0, 0, b})
				fp12([4]byte{0, a, b, 0})
				fp12([4]byte{a, 0xff, 0xff, b})
				for _, d := range edge {
					fp16([6]byte{0, 0, 0, 0, a, b})
					fp16([6]byte{a, 0, 0, b, d, 0})
					fp16([6]byte{a, b, 0xff, 0xff, d, 0xff})
					fp16([6]byte{0, 0, 0, d, a, b})
				}
			}
		}
		// all 256 high bytes of the integer word (sign extension boundary), all 65536 integer words in thorough
		for hi := 0; hi < 256; hi++ {
			fp16([6]byte{0x12, 0x34, 0x56, 0x78, byte(hi), 0x00})
			fp16([6]byte{0, 0, 0, 0, byte(hi), 0xff})
			fp12([4]byte{byte(hi), 0, 0, 1})
		}
		if c.thorough() {
			for w := 0; w < 65536; w += 3 {
				fp16([6]byte{0xde, 0xad, 0xbe, 0xef, byte(w >> 8), byte(w)})
			}
		}
		for i := 0; i < c.pick(3000, 60000); i++ {
			var b4 [4]byte
			var b6 [6]byte
			for j := range b4 {
				b4[j] = byte(c.rng.Intn(256))
			}
			for j := range b6 {
				b6[j] = byte(c.rng.Intn(256))
			}
			fp12(b4)
			fp16(b6)
		}
		// encoding in-range floats drawn with boundary bias
		enc := func(w int, f float64) {
			if w == 4 {
				var fp xsens.FP1220
				fp.FromFloat64(f)
				c.emit("fpenc", tup("4%Z", us(f64bits(f))+"%Z", nlist(fp[:]), us(f64bits(fp.Float64()))+"%Z"))
			} else {
				var fp xsens.FP1632
				fp.FromFloat64(f)
				c.emit("fpenc", tup("6%Z", us(f64bits(f))+"%Z", nlist(fp[:]), us(f64bits(fp.Float64()))+"%Z"))
			}
		}
		for _, lim := range []struct {
			w   int
			max float64
			res float64
		}{{4, 2048, 1.0 / (1 << 20)}, {6, 32768, 1.0 / (1 << 32)}} {
			bnd := []float64{0, math.Copysign(0, -1), lim.res, -lim.res, lim.res / 2, -lim.res / 2, lim.res * 1.5, 1 - lim.res, -1,
				lim.max - lim.res, math.Nextafter(lim.max, 0), -lim.max, -lim.max + lim.res/3, lim.max / 2, 0.1, -0.1, 1.0 / 3}
			for _, f := range bnd {
				enc(lim.w, f)
			}
			for i := 0; i < c.pick(2000, 40000); i++ {
				f := (c.rng.Float64()*2 - 1) * lim.max
				switch c.rng.Intn(4) {
				case 0:
					f = math.Round(f/lim.res) * lim.res // exactly representable
				case 1:
					f = f / math.Pow(2, float64(c.rng.Intn(40))) // small magnitudes
				}
				if f >= lim.max {
					f = math.Nextafter(lim.max, 0)
				}
				enc(lim.w, f)
			}
		}
		_ = fmt.Sprint
	}
}
