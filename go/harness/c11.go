package main

import (
	"context"
	"io"

	"go.einride.tech/xsens"
	"go.einride.tech/xsens/xsensemulator"
)

// C11: complete enumeration of the 65536 wire values, both directions, plus the packet accessors.
func init() {
	props["C11"] = func(c *ctx) {
		for v := 0; v < 65536; v++ {
			// destination pre-filled with junk: SetUint16 must overwrite every component
			id := xsens.DataIdentifier{DataType: 0xffff, CoordinateSystem: 0xff, Precision: 0xff}
			id.SetUint16(uint16(v))
			back := id.Uint16()
			// the same through a packet header
			p := xsens.NewMTData2Package(0, id)
			// the identifier as decoded from a raw packet header carrying v itself (reserved bits included); the
			// constructed packet's header must decode to the same identifier
			pid := xsens.MTData2Packet{byte(v >> 8), byte(v), 0}.Identifier()
			if q := p.Identifier(); q != id {
				pid = q
			}
			// and the data type the client reports for a received packet whose header carries v
			{
				port := &scriptedPort{r: &chunkReader{data: xsens.NewMessage(xsens.MessageIdentifierMTData2, []byte{byte(v >> 8), byte(v), 0}), final: io.EOF}}
				cl := xsens.NewClient(port)
				protect(func() {
					if cl.Receive(context.Background()) == nil {
						cl.ScanMeasurementData()
						if dt := cl.DataType(); dt != pid.DataType {
							pid.DataType = dt
						}
					}
				})
			}
			c.emit("id16", tup(zs(int64(v)),
				tup(zs(int64(id.DataType)), zs(int64(id.CoordinateSystem)), zs(int64(id.Precision))),
				zs(int64(back)),
				tup(zs(int64(pid.DataType)), zs(int64(pid.CoordinateSystem)), zs(int64(pid.Precision))),
				nlist(p[:2])))
			if v&0x0700 != 0 {
				c.count("reserved-bits-set")
			}
		}
		// the same through the emulator: a configured identifier must come out of MarshalMessage unchanged in the packet
		// header (cases identical to the ones above are dropped as duplicates; a difference is a new case)
		for _, t := range supportedTypes {
			for coord := 0; coord < 16; coord += 4 {
				for prec := 0; prec < 4; prec++ {
					id := xsens.DataIdentifier{DataType: t, CoordinateSystem: xsens.CoordinateSystem(coord), Precision: xsens.Precision(prec)}
					md := zeroValue(t)
					if md == nil {
						continue
					}
					emu := xsensemulator.NewEmulator(nil)
					emu.SetOutputConguration(xsens.OutputConfiguration{{DataIdentifier: id, OutputFrequency: 100}})
					var pkt []byte
					protect(func() { pkt, _ = emu.MarshalMessage(md, t) })
					if len(pkt) < 2 {
						pkt = []byte{0, 0}
					}
					v := int(id.Uint16())
					dec := xsens.DataIdentifier{DataType: 0xffff, CoordinateSystem: 0xff, Precision: 0xff}
					dec.SetUint16(uint16(v))
					pid := xsens.MTData2Packet(pkt).Identifier()
					c.emit("id16", tup(zs(int64(v)),
						tup(zs(int64(dec.DataType)), zs(int64(dec.CoordinateSystem)), zs(int64(dec.Precision))),
						zs(int64(dec.Uint16())),
						tup(zs(int64(pid.DataType)), zs(int64(pid.CoordinateSystem)), zs(int64(pid.Precision))),
						nlist(pkt[:2])))
					c.count("emulator-headers")
				}
			}
		}
		// and after a reconfiguration through the receive loop: a longer configuration with the same data type in another
		// format at its end, then the one under test alone - the header must carry the newest identifier
		for _, t := range supportedTypes {
			for k := 0; k < 3; k++ {
				id := xsens.DataIdentifier{DataType: t, CoordinateSystem: xsens.CoordinateSystem(4 * c.rng.Intn(3)), Precision: xsens.Precision(c.rng.Intn(4))}
				other := id
				other.Precision = (id.Precision + 1 + xsens.Precision(c.rng.Intn(3))) % 4
				other.CoordinateSystem = (id.CoordinateSystem + 4) % 12
				md := zeroValue(t)
				if md == nil {
					continue
				}
				first := xsens.OutputConfiguration{{DataIdentifier: xsens.DataIdentifier{DataType: xsens.DataTypePacketCounter}, OutputFrequency: 100},
					{DataIdentifier: other, OutputFrequency: 100}}
				if t == xsens.DataTypePacketCounter {
					first[0].DataType = xsens.DataTypeSampleTimeFine
				}
				var pkt []byte
				protect(func() {
					pkt, _ = emuMarshalAfter([]xsens.OutputConfiguration{first, {{DataIdentifier: id, OutputFrequency: 100}}}, md, t)
				})
				if len(pkt) < 2 {
					pkt = []byte{0, 0}
				}
				v := int(id.Uint16())
				dec := xsens.DataIdentifier{DataType: 0xffff, CoordinateSystem: 0xff, Precision: 0xff}
				dec.SetUint16(uint16(v))
				pid := xsens.MTData2Packet(pkt).Identifier()
				c.emit("id16", tup(zs(int64(v)),
					tup(zs(int64(dec.DataType)), zs(int64(dec.CoordinateSystem)), zs(int64(dec.Precision))),
					zs(int64(dec.Uint16())),
					tup(zs(int64(pid.DataType)), zs(int64(pid.CoordinateSystem)), zs(int64(pid.Precision))),
					nlist(pkt[:2])))
				c.count("emulator-headers-after-reconfiguration")
			}
		}
		// identifiers read by concurrent encodes while the configuration is replaced: never a torn one
		c.mixCases(c.pick(150, 1500), []int{4, 16})
		c.count("wire-values-enumerated")
		c.notes = append(c.notes, "exhaustive: all 65536 wire values")
	}
}
