package main

import "go.einride.tech/xsens"

// C11: complete enumeration of the 65536 wire values, both directions, plus the packet accessors.
func init() {
	props["C11"] = func(c *ctx) {
		for v := 0; v < 65536; v++ {
			// destination pre-filled with junk: SetUint16 must overwrite every component
			id := xsens.DataIdentifier{DataType: 0xffff, CoordinateSystem: 0xff, Precision: 0xff}
			id.SetUint16(uint16(v))
			back := id.Uint16()
			// the same through a packet header
			p := xsens.NewMTData2Package(0, id)
			// the identifier as decoded from a raw packet header carrying v itself (reserved bits included); the
			// constructed packet's header must decode to the same identifier
			pid := xsens.MTData2Packet{byte(v >> 8), byte(v), 0}.Identifier()
			if q := p.Identifier(); q != id {
				pid = q
			}
			c.emit("id16", tup(zs(int64(v)),
				tup(zs(int64(id.DataType)), zs(int64(id.CoordinateSystem)), zs(int64(id.Precision))),
				zs(int64(back)),
				tup(zs(int64(pid.DataType)), zs(int64(pid.CoordinateSystem)), zs(int64(pid.Precision))),
				nlist(p[:2])))
			if v&0x0700 != 0 {
				c.count("reserved-bits-set")
			}
		}
		c.count("wire-values-enumerated")
		c.notes = append(c.notes, "exhaustive: all 65536 wire values")
	}
}
