package main

import (
	"bufio"
	"errors"
	"net"
	"os"
	"time"

	"go.einride.tech/xsens"
	"go.einride.tech/xsens/xsensemulator"
)

// Kind udp: the serial port over UDP (xsensemulator/udpserialport.go) on real loop-back sockets (ephemeral ports).
// A case is (timeout of port 0, timeout of port 1 [ns], operations with what each returned); an operation is
// (op, side, slice written, read buffer size, count returned, error class, bytes read):
//   op 0 = Write, 1 = Read, 2 = time passes, 3 = Close;  error class 0 = none, 1 = socket closed, 2 = deadline exceeded,
//   3 = any other error, 4 = the call did not return within the harness's guard (the case ends there).
// The model (Model/UdpPort.v) does not depend on time: a read that starts before the datagram is on its way is emitted as
// the write followed by the read.

type udpOp struct {
	op, side int
	p        []byte
	buflen   int
	n        int
	err      int
	d        []byte
}

func (o udpOp) term() string {
	return tup(us(uint64(o.op)), us(uint64(o.side)), nlist(o.p), us(uint64(o.buflen)), us(uint64(o.n)), us(uint64(o.err)), nlist(o.d))
}

func udpErrClass(err error) int {
	switch {
	case err == nil:
		return 0
	case errors.Is(err, net.ErrClosed):
		return 1
	case errors.Is(err, os.ErrDeadlineExceeded):
		return 2
	}
	return 3
}

type udpPair struct {
	port [2]*xsensemulator.UDPSerialPort
	t    [2]time.Duration
}

// newUDPPair creates two ports facing each other; t[i] == 0 means created without any option.
func newUDPPair(t0, t1 time.Duration) (*udpPair, error) {
	mk := func(t time.Duration) (*xsensemulator.UDPSerialPort, error) {
		if t == 0 {
			return xsensemulator.NewUDPSerialPort("127.0.0.1:0", "127.0.0.1:9")
		}
		return xsensemulator.NewUDPSerialPort("127.0.0.1:0", "127.0.0.1:9", xsensemulator.WithTimeout(t))
	}
	// the port with a timeout first: options must not leak into a port created later without any
	a, err := mk(t0)
	if err != nil {
		return nil, err
	}
	b, err := mk(t1)
	if err != nil {
		a.Close()
		return nil, err
	}
	a.DestinationAddr = b.OriginConn.LocalAddr().(*net.UDPAddr)
	b.DestinationAddr = a.OriginConn.LocalAddr().(*net.UDPAddr)
	return &udpPair{port: [2]*xsensemulator.UDPSerialPort{a, b}, t: [2]time.Duration{t0, t1}}, nil
}

func (u *udpPair) close() { u.port[0].Close(); u.port[1].Close() }

const udpGuard = 4 * time.Second

// guarded runs f and reports false when it did not return within the guard.
func guarded(f func()) bool {
	done := make(chan struct{})
	go func() { f(); close(done) }()
	select {
	case <-done:
		return true
	case <-time.After(udpGuard):
		return false
	}
}

// step performs one operation; delay > 0 on a write means: the write happens that much later, while the NEXT operation
// (a read on the other side) is already waiting.
type udpPlan struct {
	op, side int
	p        []byte
	buflen   int
	sleep    time.Duration // op 2: how long; op 0: the write is delayed by this much and overlaps the next read
}

func (c *ctx) runUDP(t0, t1 time.Duration, plan []udpPlan) {
	u, err := newUDPPair(t0, t1)
	if err != nil {
		c.notes = append(c.notes, "udp: sockets unavailable: "+err.Error())
		c.count("udp-unavailable")
		return
	}
	defer u.close()
	var ops []udpOp
	hung := false
	doWrite := func(pl udpPlan) udpOp {
		o := udpOp{op: 0, side: pl.side, p: pl.p}
		var n int
		var err error
		if !guarded(func() { n, err = u.port[pl.side].Write(exact(pl.p)) }) {
			o.err = 4
			hung = true
			return o
		}
		o.n, o.err = n, udpErrClass(err)
		return o
	}
	doRead := func(pl udpPlan) udpOp {
		o := udpOp{op: 1, side: pl.side, buflen: pl.buflen}
		buf := make([]byte, pl.buflen)
		var n int
		var err error
		if !guarded(func() { n, err = u.port[pl.side].Read(buf) }) {
			o.err = 4
			hung = true
			u.close() // releases the reader
			return o
		}
		if n < 0 || n > len(buf) {
			o.n, o.err = 0, 3
			return o
		}
		o.n, o.err, o.d = n, udpErrClass(err), append([]byte{}, buf[:n]...)
		return o
	}
	for i := 0; i < len(plan) && !hung; i++ {
		pl := plan[i]
		switch pl.op {
		case 0:
			if pl.sleep > 0 && i+1 < len(plan) && plan[i+1].op == 1 {
				// the reader is already waiting when the datagram is sent
				res := make(chan udpOp, 1)
				go func() { time.Sleep(pl.sleep); res <- doWrite(pl) }()
				r := doRead(plan[i+1])
				w := <-res
				ops = append(ops, w, r)
				i++
				c.count("udp-read-waits-for-write")
				continue
			}
			ops = append(ops, doWrite(pl))
		case 1:
			ops = append(ops, doRead(pl))
		case 2:
			time.Sleep(pl.sleep)
			ops = append(ops, udpOp{op: 2})
		case 3:
			u.port[pl.side].Close()
			ops = append(ops, udpOp{op: 3, side: pl.side})
		}
	}
	terms := make([]string, len(ops))
	for i, o := range ops {
		terms[i] = o.term()
	}
	c.emit("udp", tup(us(uint64(t0)), us(uint64(t1)), "["+joinSemi(terms)+"]"))
	c.count("udp-case")
}

func joinSemi(s []string) string {
	out := ""
	for i, x := range s {
		if i > 0 {
			out += ";"
		}
		out += x
	}
	return out
}

// udpFrameSizes: payload lengths around every boundary of the framing and of common datagram limits.
func udpFrameSizes() []int {
	s := []int{0, 1, 2, 253, 254, 255, 256, 257, 511, 512, 1023, 1024}
	for n := 1460; n <= 1476; n++ {
		s = append(s, n)
	}
	for n := 2040; n <= 2048; n++ {
		s = append(s, n)
	}
	return s
}

func (c *ctx) udpCases() {
	ms := time.Millisecond
	// every frame size, both directions, written in bursts and read back
	for _, side := range []int{0, 1} {
		var plan []udpPlan
		var burst []udpPlan
		for _, n := range udpFrameSizes() {
			f := []byte(xsens.NewMessage(xsens.MessageIdentifier(0x36), c.payload(n)))
			burst = append(burst, udpPlan{op: 0, side: side, p: f})
			if len(burst) == 6 {
				plan = append(plan, burst...)
				for range burst {
					plan = append(plan, udpPlan{op: 1, side: 1 - side, buflen: 4096})
				}
				burst = nil
			}
		}
		plan = append(plan, burst...)
		for range burst {
			plan = append(plan, udpPlan{op: 1, side: 1 - side, buflen: 4096})
		}
		c.runUDP(0, 0, plan)
	}
	// arbitrary slices (a write is one datagram whatever the bytes are), small buffers, interleaved directions
	for k := 0; k < c.pick(6, 40); k++ {
		var plan []udpPlan
		inflight := [2]int{}
		for j := 0; j < 12; j++ {
			side := c.rng.Intn(2)
			if inflight[side] > 0 && c.rng.Intn(2) == 0 {
				bl := 4096
				if c.rng.Intn(4) == 0 {
					bl = 1 + c.rng.Intn(64)
				}
				plan = append(plan, udpPlan{op: 1, side: side, buflen: bl})
				inflight[side]--
				continue
			}
			var p []byte
			if c.rng.Intn(3) == 0 {
				p = c.randomFrame()
			} else {
				p = c.payload(c.rng.Intn(300))
			}
			plan = append(plan, udpPlan{op: 0, side: side, p: p})
			inflight[1-side]++
		}
		for side := 0; side < 2; side++ {
			for ; inflight[side] > 0; inflight[side]-- {
				plan = append(plan, udpPlan{op: 1, side: side, buflen: 4096})
			}
		}
		ts := []time.Duration{0, 0, 50 * ms, 200 * ms}
		c.runUDP(ts[c.rng.Intn(4)], ts[c.rng.Intn(4)], plan)
	}
	f := []byte(xsens.NewMessage(0x36, c.payload(40)))
	g := []byte(xsens.NewMessage(0x30, nil))
	// a port with a timeout: a read after its deadline passed without data reports it; time passing between a read and a
	// write changes nothing; the other port (no options) is not affected by the first one's options
	c.runUDP(100*ms, 0, []udpPlan{
		{op: 1, side: 0, buflen: 4096}, // nothing there: deadline exceeded after 100 ms
		{op: 0, side: 1, p: f}, {op: 1, side: 0, buflen: 4096},
		{op: 2, sleep: 180 * ms},
		{op: 0, side: 0, p: g}, {op: 1, side: 1, buflen: 4096},
		{op: 0, side: 0, p: f, sleep: 250 * ms}, {op: 1, side: 1, buflen: 4096}, // the reader without a timeout waits
		{op: 0, side: 1, p: g}, {op: 1, side: 0, buflen: 4096},
	})
	c.runUDP(0, 80*ms, []udpPlan{
		{op: 0, side: 1, p: g, sleep: 200 * ms}, {op: 1, side: 0, buflen: 4096},
		{op: 1, side: 1, buflen: 4096},
		{op: 2, sleep: 120 * ms},
		{op: 0, side: 1, p: f}, {op: 1, side: 0, buflen: 4096},
	})
	// ports created without options never give up: a quiet line for more than a second
	c.runUDP(0, 0, []udpPlan{
		{op: 0, side: 0, p: f}, {op: 1, side: 1, buflen: 4096},
		{op: 0, side: 0, p: g, sleep: 1200 * ms}, {op: 1, side: 1, buflen: 4096},
		{op: 0, side: 1, p: f}, {op: 1, side: 0, buflen: 4096},
	})
	// a closed port reports it, on every operation, and the other side is not affected
	c.runUDP(0, 0, []udpPlan{
		{op: 0, side: 0, p: f}, {op: 3, side: 0}, {op: 0, side: 0, p: g}, {op: 1, side: 0, buflen: 64},
		{op: 1, side: 1, buflen: 4096}, {op: 0, side: 1, p: g},
	})
	c.runUDP(50*ms, 50*ms, []udpPlan{{op: 3, side: 1}, {op: 0, side: 1, p: f}, {op: 1, side: 1, buflen: 64}, {op: 0, side: 0, p: f}})
	c.udpEndToEnd()
}

// udpEndToEnd: an emulator transmits frames of every size over a port; the other side reads them with the library's
// stream scanner, as a client does.  Emitted as the same kind: the write is the frame handed to Transmit, the read is the
// token the scanner delivered.
func (c *ctx) udpEndToEnd() {
	u, err := newUDPPair(0, 0)
	if err != nil {
		c.count("udp-unavailable")
		return
	}
	defer u.close()
	emu := xsensemulator.NewEmulator(u.port[0])
	emu.SetSendMode() // measurement mode: Transmit sends
	sc := bufio.NewScanner(u.port[1])
	sc.Split(xsens.ScanMessages)
	// A datagram read into a slice shorter than itself is cut by the operating system, and a scanner offers a read only
	// what is left of its buffer: the scanner gets a buffer that always has room for the longest frame (with the default
	// 4096-byte buffer a long frame can lose its tail, depending on where the previous frames ended - see DESIGN.md 13.8).
	const room = 1 << 18
	sc.Buffer(make([]byte, 0, room), room)
	var terms []string
	for _, n := range udpFrameSizes() {
		f := []byte(xsens.NewMessage(xsens.MessageIdentifier(0x36), c.payload(n)))
		var terr error
		if !guarded(func() { terr = emu.Transmit(xsens.Message(exact(f))) }) {
			terms = append(terms, udpOp{op: 0, side: 0, p: f, err: 4}.term())
			break
		}
		w := udpOp{op: 0, side: 0, p: f, n: len(f), err: 0}
		if terr != nil {
			w.n, w.err = 0, 3
			terms = append(terms, w.term())
			break
		}
		terms = append(terms, w.term())
		var ok bool
		r := udpOp{op: 1, side: 1, buflen: room / 2}
		if !guarded(func() { ok = sc.Scan() }) {
			r.err = 4
			terms = append(terms, r.term())
			u.close()
			break
		}
		if !ok {
			r.err = 3
			terms = append(terms, r.term())
			break
		}
		r.d = append([]byte{}, sc.Bytes()...)
		r.n = len(r.d)
		terms = append(terms, r.term())
	}
	c.emit("udp", tup("0", "0", "["+joinSemi(terms)+"]"))
	c.count("udp-end-to-end")
}

func init() {
	for _, id := range []string{"C01", "C06", "C07", "C08", "C18", "C19"} {
		inner := props[id]
		props[id] = func(c *ctx) { inner(c); c.udpCases() }
	}
}
